// Package xref is an independent reference evaluator for XPath 1.0 (plus the
// library conventions the properties bless) over xmodel documents.  It is
// written from the W3C recommendation; it shares no code with xsel and never
// parses expression text - it evaluates xast trees.
package xref

import (
	"errors"
	"math"
	"sort"
	"strconv"
	"strings"

	"verif/xmodel"
)

type Type int

const (
	TNodeSet Type = iota
	TNumber
	TString
	TBool
)

func (t Type) String() string { return [...]string{"node-set", "number", "string", "boolean"}[t] }

type Value struct {
	T     Type
	Nodes []*xmodel.Node // document order, duplicate-free
	N     float64
	S     string
	B     bool
}

func NodeSet(ns []*xmodel.Node) Value { return Value{T: TNodeSet, Nodes: ns} }
func Number(f float64) Value          { return Value{T: TNumber, N: f} }
func String(s string) Value           { return Value{T: TString, S: s} }
func Bool(b bool) Value               { return Value{T: TBool, B: b} }

// ErrOutOfScope marks evaluations whose expected value the listed properties
// deliberately do not define (name tests on the namespace axis, id()).
var ErrOutOfScope = errors.New("out of scope for the listed properties")

// Sort puts nodes in document order and removes duplicates.
func Sort(ns []*xmodel.Node) []*xmodel.Node {
	sort.Slice(ns, func(i, j int) bool { return ns[i].Ord < ns[j].Ord })
	out := ns[:0]
	for i, n := range ns {
		if i == 0 || ns[i-1] != n {
			out = append(out, n)
		}
	}
	return out
}

// ---- conversions (XPath 1.0 section 4) ----

func IsXMLSpace(r rune) bool { return r == 0x20 || r == 0x9 || r == 0xD || r == 0xA }

// StringToNumber implements number() on strings: optional whitespace,
// optional '-', Number ::= Digits ('.' Digits?)? | '.' Digits, optional
// whitespace; anything else is NaN.
func StringToNumber(s string) float64 {
	s = strings.TrimFunc(s, IsXMLSpace)
	t := s
	if strings.HasPrefix(t, "-") {
		t = t[1:]
	}
	if t == "" {
		return math.NaN()
	}
	digits, dots := 0, 0
	for _, r := range t {
		switch {
		case r >= '0' && r <= '9':
			digits++
		case r == '.':
			dots++
		default:
			return math.NaN()
		}
	}
	if digits == 0 || dots > 1 {
		return math.NaN()
	}
	f, err := strconv.ParseFloat(s, 64)
	if err != nil {
		// only range errors are possible for this syntax; ParseFloat then
		// returns +-Inf, which is the IEEE round-to-nearest result
		var ne *strconv.NumError
		if errors.As(err, &ne) && ne.Err == strconv.ErrRange {
			return f
		}
		return math.NaN()
	}
	return f
}

// NumberToString implements string() on numbers.
func NumberToString(f float64) string {
	switch {
	case math.IsNaN(f):
		return "NaN"
	case math.IsInf(f, 1):
		return "Infinity"
	case math.IsInf(f, -1):
		return "-Infinity"
	case f == 0:
		return "0"
	}
	// shortest decimal that reads back to f, positional notation, no exponent
	return strconv.FormatFloat(f, 'f', -1, 64)
}

func (v Value) ToString() string {
	switch v.T {
	case TNodeSet:
		if len(v.Nodes) == 0 {
			return ""
		}
		return v.Nodes[0].StringValue()
	case TNumber:
		return NumberToString(v.N)
	case TString:
		return v.S
	}
	if v.B {
		return "true"
	}
	return "false"
}

func (v Value) ToNumber() float64 {
	switch v.T {
	case TNodeSet:
		return StringToNumber(v.ToString())
	case TNumber:
		return v.N
	case TString:
		return StringToNumber(v.S)
	}
	if v.B {
		return 1
	}
	return 0
}

func (v Value) ToBool() bool {
	switch v.T {
	case TNodeSet:
		return len(v.Nodes) > 0
	case TNumber:
		return v.N != 0 && !math.IsNaN(v.N)
	case TString:
		return v.S != ""
	}
	return v.B
}

// Round implements round(): the integer closest to the argument, ties toward
// positive infinity; NaN, infinities and zeros pass through.
func Round(f float64) float64 {
	if math.IsNaN(f) || math.IsInf(f, 0) || f == 0 {
		return f
	}
	if math.Abs(f) >= 1<<52 {
		return f // already integral
	}
	fl := math.Floor(f)
	if f-fl >= 0.5 {
		return fl + 1 // may be -0 mathematically; compared with ==, so 0
	}
	return fl
}

func (v Value) Describe() string {
	switch v.T {
	case TNodeSet:
		parts := make([]string, 0, len(v.Nodes))
		for _, n := range v.Nodes {
			parts = append(parts, n.Ref())
		}
		return "node-set{" + strings.Join(parts, " ") + "}"
	case TNumber:
		return "number(" + strconv.FormatFloat(v.N, 'g', -1, 64) + ")"
	case TString:
		return "string(" + strconv.Quote(v.S) + ")"
	}
	return "boolean(" + strconv.FormatBool(v.B) + ")"
}
