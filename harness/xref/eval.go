package xref

import (
	"fmt"
	"math"
	"strings"

	"verif/xast"
	"verif/xmodel"
)

type Name struct{ Space, Local string }

// UserFunc is a user function of the reference environment.
type UserFunc func(c Ctx, args []Value) (Value, error)

type Env struct {
	Doc   *xmodel.Doc
	NS    map[string]string
	Vars  map[Name]Value
	Funcs map[Name]UserFunc
	// Negative-tie rounding as the repository's own test suite pins it
	// (round(-1.5) = -2); see known finding KF-round-negative-tie.
	RoundHalfAwayNegative bool
	// Unpinned is set (to a reason) when an evaluation depended on something
	// the listed properties do not pin down, e.g. the sign of a zero divisor
	// that is not a numeric literal; such cases are discarded, not judged.
	Unpinned string
	// Obs records facts about the last evaluations, for non-triviality rules.
	Obs Obs
}

// Obs are observations the evaluator makes while it works.
type Obs struct {
	PredCtxNodes    int  // most context nodes seen by a predicate-bearing step
	PredCandidates  int  // longest candidate list a predicate was applied to
	ReversePred     bool // a predicate was applied on a reverse axis (with >= 2 candidates)
	NonIntegralPred bool // a numeric predicate value was NaN or not an integer
	FilterPred      bool // a predicate was applied to a filter expression (>= 2 nodes)
	FilterContinued bool // a path continued after a filter expression
	DupCandidates   bool // two context nodes of a step reached the same node
	ReverseThenStep bool // a step was applied to the result of a reverse-axis step
	UnionOverlap    bool // union operands had a node in common
}

type Ctx struct {
	Node *xmodel.Node
	Pos  int
	Size int
}

type EvalError struct{ Msg string }

func (e *EvalError) Error() string { return e.Msg }

func errf(format string, a ...any) error { return &EvalError{fmt.Sprintf(format, a...)} }

func (e *Env) qname(q string) (Name, error) {
	if i := strings.IndexByte(q, ':'); i >= 0 {
		uri, ok := e.NS[q[:i]]
		if !ok {
			return Name{}, errf("unbound prefix %q", q[:i])
		}
		return Name{uri, q[i+1:]}, nil
	}
	return Name{"", q}, nil
}

// Eval evaluates x with context c.
func (e *Env) Eval(x *xast.Expr, c Ctx) (Value, error) {
	switch x.K {
	case "or", "and":
		l, err := e.Eval(x.A[0], c)
		if err != nil {
			return Value{}, err
		}
		// XPath does not evaluate the right operand when the left decides;
		// errors in the right operand are then not raised.  Generators never
		// put an erroneous operand behind a deciding left operand.
		r, err := e.Eval(x.A[1], c)
		if err != nil {
			return Value{}, err
		}
		if x.K == "or" {
			return Bool(l.ToBool() || r.ToBool()), nil
		}
		return Bool(l.ToBool() && r.ToBool()), nil
	case "=", "!=", "<", "<=", ">", ">=":
		l, err := e.Eval(x.A[0], c)
		if err != nil {
			return Value{}, err
		}
		r, err := e.Eval(x.A[1], c)
		if err != nil {
			return Value{}, err
		}
		return Bool(Compare(x.K, l, r)), nil
	case "+", "-", "*", "div", "mod":
		l, err := e.Eval(x.A[0], c)
		if err != nil {
			return Value{}, err
		}
		r, err := e.Eval(x.A[1], c)
		if err != nil {
			return Value{}, err
		}
		a, b := l.ToNumber(), r.ToNumber()
		switch x.K {
		case "+":
			return Number(a + b), nil
		case "-":
			return Number(a - b), nil
		case "*":
			return Number(a * b), nil
		case "div":
			if b == 0 && !isZeroLiteral(x.A[1]) {
				e.Unpinned = "zero-divisor-of-unpinned-sign"
			}
			return Number(a / b), nil
		}
		return Number(math.Mod(a, b)), nil
	case "neg":
		v, err := e.Eval(x.A[0], c)
		if err != nil {
			return Value{}, err
		}
		return Number(-v.ToNumber()), nil
	case "|":
		l, err := e.Eval(x.A[0], c)
		if err != nil {
			return Value{}, err
		}
		r, err := e.Eval(x.A[1], c)
		if err != nil {
			return Value{}, err
		}
		if l.T != TNodeSet || r.T != TNodeSet {
			return Value{}, errf("union of non-node-sets")
		}
		ns := append(append([]*xmodel.Node{}, l.Nodes...), r.Nodes...)
		before := len(ns)
		ns = Sort(ns)
		if len(ns) < before {
			e.Obs.UnionOverlap = true
		}
		return NodeSet(ns), nil
	case "num":
		return Number(StringToNumber(x.S)), nil
	case "str":
		return String(x.S), nil
	case "var":
		n, err := e.qname(x.S)
		if err != nil {
			return Value{}, err
		}
		v, ok := e.Vars[n]
		if !ok {
			return Value{}, errf("unbound variable %v", n)
		}
		return v, nil
	case "call":
		return e.call(x, c, nil)
	case "path":
		return e.path(x, c)
	}
	return Value{}, errf("bad expression kind %q", x.K)
}

// Compare implements XPath 1.0 section 3.4.
func Compare(op string, l, r Value) bool {
	cmpNum := func(a, b float64) bool {
		switch op {
		case "=":
			return a == b
		case "!=":
			return a != b
		case "<":
			return a < b
		case "<=":
			return a <= b
		case ">":
			return a > b
		}
		return a >= b
	}
	cmpStr := func(a, b string) bool {
		switch op {
		case "=":
			return a == b
		case "!=":
			return a != b
		}
		return cmpNum(StringToNumber(a), StringToNumber(b))
	}
	cmpBool := func(a, b bool) bool {
		switch op {
		case "=":
			return a == b
		case "!=":
			return a != b
		}
		fa, fb := 0.0, 0.0
		if a {
			fa = 1
		}
		if b {
			fb = 1
		}
		return cmpNum(fa, fb)
	}
	if l.T == TNodeSet && r.T == TNodeSet {
		for _, a := range l.Nodes {
			for _, b := range r.Nodes {
				if cmpStr(a.StringValue(), b.StringValue()) {
					return true
				}
			}
		}
		return false
	}
	if l.T == TNodeSet || r.T == TNodeSet {
		ns, other, nsLeft := l, r, true
		if r.T == TNodeSet {
			ns, other, nsLeft = r, l, false
		}
		switch other.T {
		case TBool:
			if nsLeft {
				return cmpBool(ns.ToBool(), other.B)
			}
			return cmpBool(other.B, ns.ToBool())
		case TNumber:
			for _, n := range ns.Nodes {
				f := StringToNumber(n.StringValue())
				if nsLeft && cmpNum(f, other.N) || !nsLeft && cmpNum(other.N, f) {
					return true
				}
			}
			return false
		default:
			for _, n := range ns.Nodes {
				s := n.StringValue()
				if nsLeft && cmpStr(s, other.S) || !nsLeft && cmpStr(other.S, s) {
					return true
				}
			}
			return false
		}
	}
	if op == "=" || op == "!=" {
		switch {
		case l.T == TBool || r.T == TBool:
			return cmpBool(l.ToBool(), r.ToBool())
		case l.T == TNumber || r.T == TNumber:
			return cmpNum(l.ToNumber(), r.ToNumber())
		}
		return cmpStr(l.ToString(), r.ToString())
	}
	return cmpNum(l.ToNumber(), r.ToNumber())
}

// ---- paths ----

func (e *Env) path(x *xast.Expr, c Ctx) (Value, error) {
	var cur []*xmodel.Node
	switch {
	case x.Base != nil:
		v, err := e.Eval(x.Base, c)
		if err != nil {
			return Value{}, err
		}
		if len(x.BP) == 0 && len(x.Steps) == 0 {
			return v, nil
		}
		if v.T != TNodeSet {
			return Value{}, errf("predicate or step applied to a %v", v.T)
		}
		cur = v.Nodes
		for _, p := range x.BP {
			var err error
			if len(cur) >= 2 {
				e.Obs.FilterPred = true
			}
			cur, err = e.filter(cur, p, false)
			if err != nil {
				return Value{}, err
			}
		}
		if len(x.Steps) > 0 {
			e.Obs.FilterContinued = true
		}
	case x.Abs:
		cur = []*xmodel.Node{e.Doc.Root}
	default:
		cur = []*xmodel.Node{c.Node}
	}
	for i, s := range x.Steps {
		if s.DS {
			var next []*xmodel.Node
			for _, n := range cur {
				next = append(next, axis("descendant-or-self", n, e.Doc)...)
			}
			cur = Sort(next)
		}
		if s.Call != nil {
			// extension: a function call as a step sees the whole current
			// node-set as its context ("P/f()" = "f(P)")
			v, err := e.call(s.Call, c, cur)
			if err != nil {
				return Value{}, err
			}
			if i != len(x.Steps)-1 {
				if v.T != TNodeSet {
					return Value{}, errf("step after a non-node-set function step")
				}
				cur = v.Nodes
				continue
			}
			return v, nil
		}
		var next []*xmodel.Node
		if len(s.Preds) > 0 && len(cur) > e.Obs.PredCtxNodes {
			e.Obs.PredCtxNodes = len(cur)
		}
		if i > 0 && xast.IsReverse(x.Steps[i-1].Axis) && len(cur) >= 2 {
			e.Obs.ReverseThenStep = true
		}
		for _, n := range cur {
			sel, err := e.step(s, n)
			if err != nil {
				return Value{}, err
			}
			next = append(next, sel...)
		}
		before := len(next)
		cur = Sort(next)
		if len(cur) < before {
			e.Obs.DupCandidates = true
		}
	}
	return NodeSet(cur), nil
}

// step evaluates one step from one context node: axis, node test, then the
// predicates with proximity positions along the axis direction.
func (e *Env) step(s *xast.Step, n *xmodel.Node) ([]*xmodel.Node, error) {
	cand := axis(s.Axis, n, e.Doc) // document order
	var sel []*xmodel.Node
	for _, m := range cand {
		ok, err := e.test(s.Axis, s.Test, m)
		if err != nil {
			return nil, err
		}
		if ok {
			sel = append(sel, m)
		}
	}
	rev := xast.IsReverse(s.Axis)
	for _, p := range s.Preds {
		var err error
		if len(sel) > e.Obs.PredCandidates {
			e.Obs.PredCandidates = len(sel)
		}
		if rev && len(sel) >= 2 {
			e.Obs.ReversePred = true
		}
		sel, err = e.filter(sel, p, rev)
		if err != nil {
			return nil, err
		}
	}
	return sel, nil
}

// filter keeps the nodes of ns (document order) for which predicate p holds;
// positions count from the end when rev.
func (e *Env) filter(ns []*xmodel.Node, p *xast.Expr, rev bool) ([]*xmodel.Node, error) {
	var out []*xmodel.Node
	size := len(ns)
	for i, n := range ns {
		pos := i + 1
		if rev {
			pos = size - i
		}
		v, err := e.Eval(p, Ctx{Node: n, Pos: pos, Size: size})
		if err != nil {
			return nil, err
		}
		keep := false
		if v.T == TNumber {
			if v.N != math.Trunc(v.N) || math.IsNaN(v.N) {
				e.Obs.NonIntegralPred = true
			}
			keep = v.N == float64(pos)
		} else {
			keep = v.ToBool()
		}
		if keep {
			out = append(out, n)
		}
	}
	return out, nil
}

func principal(ax string) xmodel.Kind {
	switch ax {
	case "attribute":
		return xmodel.Attr
	case "namespace":
		return xmodel.NS
	}
	return xmodel.Elem
}

func (e *Env) test(ax string, t xast.Test, m *xmodel.Node) (bool, error) {
	switch t.K {
	case "node":
		return true, nil
	case "text":
		return m.Kind == xmodel.Text, nil
	case "comment":
		return m.Kind == xmodel.Comment, nil
	case "pi":
		return m.Kind == xmodel.PI, nil
	case "pit":
		return m.Kind == xmodel.PI && m.Local == t.L, nil
	}
	if ax == "namespace" {
		// name tests on the namespace axis follow the library's own rule
		return false, ErrOutOfScope
	}
	if m.Kind != principal(ax) {
		return false, nil
	}
	switch t.K {
	case "any":
		return true, nil
	case "localany":
		return m.Local == t.L, nil
	case "nsany":
		uri, ok := e.NS[t.P]
		if !ok {
			return false, errf("unbound prefix %q", t.P)
		}
		return m.Space == uri, nil
	case "name":
		uri := ""
		if t.P != "" {
			var ok bool
			uri, ok = e.NS[t.P]
			if !ok {
				return false, errf("unbound prefix %q", t.P)
			}
		}
		return m.Space == uri && m.Local == t.L, nil
	}
	return false, errf("bad node test %q", t.K)
}

// axis returns the nodes on the axis from n, in document order.
func axis(ax string, n *xmodel.Node, d *xmodel.Doc) []*xmodel.Node {
	var out []*xmodel.Node
	isTree := func(m *xmodel.Node) bool { return m.Kind != xmodel.Attr && m.Kind != xmodel.NS }
	var desc func(m *xmodel.Node)
	desc = func(m *xmodel.Node) {
		for _, c := range m.Children {
			out = append(out, c)
			desc(c)
		}
	}
	switch ax {
	case "self":
		out = append(out, n)
	case "child":
		out = append(out, n.Children...)
	case "attribute":
		if n.Kind == xmodel.Elem {
			out = append(out, n.Attrs...)
		}
	case "namespace":
		if n.Kind == xmodel.Elem {
			out = append(out, n.NSNodes...)
		}
	case "parent":
		if n.Parent != nil {
			out = append(out, n.Parent)
		}
	case "descendant":
		desc(n)
	case "descendant-or-self":
		out = append(out, n)
		desc(n)
	case "ancestor", "ancestor-or-self":
		var rev []*xmodel.Node
		if ax == "ancestor-or-self" {
			rev = append(rev, n)
		}
		for p := n.Parent; p != nil; p = p.Parent {
			rev = append(rev, p)
		}
		for i := len(rev) - 1; i >= 0; i-- {
			out = append(out, rev[i])
		}
	case "following-sibling", "preceding-sibling":
		if !isTree(n) || n.Parent == nil {
			break
		}
		seen := false
		for _, s := range n.Parent.Children {
			if s == n {
				seen = true
				continue
			}
			if seen == (ax == "following-sibling") {
				out = append(out, s)
			}
		}
	case "following":
		// all nodes after n in document order, excluding descendants,
		// attributes and namespace nodes
		for _, m := range d.All {
			if m.Ord > n.Ord && isTree(m) && !n.IsAncestorOf(m) {
				out = append(out, m)
			}
		}
	case "preceding":
		for _, m := range d.All {
			if m.Ord < n.Ord && isTree(m) && !m.IsAncestorOf(n) {
				out = append(out, m)
			}
		}
	}
	return out
}

// Axis exposes axis evaluation for implementation-only laws.
func Axis(ax string, n *xmodel.Node, d *xmodel.Doc) []*xmodel.Node { return axis(ax, n, d) }

func isZeroLiteral(x *xast.Expr) bool {
	for x.K == "neg" {
		x = x.A[0]
	}
	return x.K == "num"
}
