package xref

import (
	"math"
	"strings"
	"unicode/utf8"

	"verif/xast"
	"verif/xmodel"
)

// call evaluates a function call.  stepSet != nil means the call is used as
// a path step (library extension): the zero-argument context-dependent
// builtins then see that whole node-set as their implicit argument.
func (e *Env) call(x *xast.Expr, c Ctx, stepSet []*xmodel.Node) (Value, error) {
	name, err := e.qname(x.S)
	if err != nil {
		return Value{}, err
	}
	inStep := stepSet != nil
	if inStep && len(x.A) > 0 {
		if _, user := e.Funcs[name]; !user {
			return Value{}, ErrOutOfScope
		}
	}
	args := make([]Value, len(x.A))
	for i, a := range x.A {
		v, err := e.Eval(a, c)
		if err != nil {
			return Value{}, err
		}
		args[i] = v
	}
	if f, ok := e.Funcs[name]; ok {
		return f(c, args)
	}
	if name.Space != "" {
		return Value{}, errf("unknown function %v", name)
	}
	implicit := func() Value {
		if inStep {
			return NodeSet(stepSet)
		}
		return NodeSet([]*xmodel.Node{c.Node})
	}
	arity := func(ns ...int) error {
		for _, n := range ns {
			if len(args) == n {
				return nil
			}
		}
		return errf("%s: wrong number of arguments (%d)", name.Local, len(args))
	}
	nodeArg := func() (Value, error) {
		if len(args) == 0 {
			return implicit(), nil
		}
		if args[0].T != TNodeSet {
			return Value{}, errf("%s: argument is not a node-set", name.Local)
		}
		return args[0], nil
	}
	strArg := func() string {
		if len(args) == 0 {
			return implicit().ToString()
		}
		return args[0].ToString()
	}
	if inStep {
		switch name.Local {
		case "string", "number", "name", "local-name", "namespace-uri", "string-length", "normalize-space":
		default:
			return Value{}, ErrOutOfScope
		}
	}
	switch name.Local {
	case "last":
		if err := arity(0); err != nil {
			return Value{}, err
		}
		return Number(float64(c.Size)), nil
	case "position":
		if err := arity(0); err != nil {
			return Value{}, err
		}
		return Number(float64(c.Pos)), nil
	case "count":
		if err := arity(1); err != nil {
			return Value{}, err
		}
		if args[0].T != TNodeSet {
			return Value{}, errf("count: argument is not a node-set")
		}
		return Number(float64(len(args[0].Nodes))), nil
	case "id":
		return Value{}, ErrOutOfScope
	case "local-name", "namespace-uri", "name":
		if err := arity(0, 1); err != nil {
			return Value{}, err
		}
		v, err := nodeArg()
		if err != nil {
			return Value{}, err
		}
		if len(v.Nodes) == 0 {
			return String(""), nil
		}
		n := v.Nodes[0]
		local, uri := "", ""
		switch n.Kind {
		case xmodel.Elem, xmodel.Attr:
			local, uri = n.Local, n.Space
		case xmodel.PI, xmodel.NS:
			local = n.Local
		}
		switch name.Local {
		case "local-name":
			return String(local), nil
		case "namespace-uri":
			return String(uri), nil
		}
		if uri == "" {
			return String(local), nil
		}
		return String("{" + uri + "}" + local), nil // the library's notation
	case "string":
		if err := arity(0, 1); err != nil {
			return Value{}, err
		}
		return String(strArg()), nil
	case "concat":
		if len(args) < 2 {
			return Value{}, errf("concat: needs two or more arguments")
		}
		var sb strings.Builder
		for _, a := range args {
			sb.WriteString(a.ToString())
		}
		return String(sb.String()), nil
	case "starts-with":
		if err := arity(2); err != nil {
			return Value{}, err
		}
		return Bool(strings.HasPrefix(args[0].ToString(), args[1].ToString())), nil
	case "contains":
		if err := arity(2); err != nil {
			return Value{}, err
		}
		return Bool(strings.Contains(args[0].ToString(), args[1].ToString())), nil
	case "substring-before":
		if err := arity(2); err != nil {
			return Value{}, err
		}
		s, t := args[0].ToString(), args[1].ToString()
		if i := strings.Index(s, t); i >= 0 {
			return String(s[:i]), nil
		}
		return String(""), nil
	case "substring-after":
		if err := arity(2); err != nil {
			return Value{}, err
		}
		s, t := args[0].ToString(), args[1].ToString()
		if i := strings.Index(s, t); i >= 0 {
			return String(s[i+len(t):]), nil
		}
		return String(""), nil
	case "substring":
		if err := arity(2, 3); err != nil {
			return Value{}, err
		}
		rs := []rune(args[0].ToString())
		p := e.round(args[1].ToNumber())
		var sb strings.Builder
		if len(args) == 2 {
			for i, r := range rs {
				if float64(i+1) >= p {
					sb.WriteRune(r)
				}
			}
			return String(sb.String()), nil
		}
		l := e.round(args[2].ToNumber())
		end := p + l // IEEE: NaN / inf-inf make every comparison false
		for i, r := range rs {
			q := float64(i + 1)
			if q >= p && q < end {
				sb.WriteRune(r)
			}
		}
		return String(sb.String()), nil
	case "string-length":
		if err := arity(0, 1); err != nil {
			return Value{}, err
		}
		return Number(float64(utf8.RuneCountInString(strArg()))), nil
	case "normalize-space":
		if err := arity(0, 1); err != nil {
			return Value{}, err
		}
		return String(strings.Join(strings.FieldsFunc(strArg(), IsXMLSpace), " ")), nil
	case "translate":
		if err := arity(3); err != nil {
			return Value{}, err
		}
		from, to := []rune(args[1].ToString()), []rune(args[2].ToString())
		var sb strings.Builder
	next:
		for _, r := range args[0].ToString() {
			for i, f := range from {
				if f == r {
					if i < len(to) {
						sb.WriteRune(to[i])
					}
					continue next
				}
			}
			sb.WriteRune(r)
		}
		return String(sb.String()), nil
	case "boolean":
		if err := arity(1); err != nil {
			return Value{}, err
		}
		return Bool(args[0].ToBool()), nil
	case "not":
		if err := arity(1); err != nil {
			return Value{}, err
		}
		return Bool(!args[0].ToBool()), nil
	case "true":
		if err := arity(0); err != nil {
			return Value{}, err
		}
		return Bool(true), nil
	case "false":
		if err := arity(0); err != nil {
			return Value{}, err
		}
		return Bool(false), nil
	case "lang":
		if err := arity(1); err != nil {
			return Value{}, err
		}
		return Bool(Lang(c.Node, args[0].ToString())), nil
	case "number":
		if err := arity(0, 1); err != nil {
			return Value{}, err
		}
		if len(args) == 0 {
			return Number(implicit().ToNumber()), nil
		}
		return Number(args[0].ToNumber()), nil
	case "sum":
		if err := arity(1); err != nil {
			return Value{}, err
		}
		if args[0].T != TNodeSet {
			return Value{}, errf("sum: argument is not a node-set")
		}
		s := 0.0
		for _, n := range args[0].Nodes {
			s += StringToNumber(n.StringValue())
		}
		return Number(s), nil
	case "floor":
		if err := arity(1); err != nil {
			return Value{}, err
		}
		return Number(math.Floor(args[0].ToNumber())), nil
	case "ceiling":
		if err := arity(1); err != nil {
			return Value{}, err
		}
		return Number(math.Ceil(args[0].ToNumber())), nil
	case "round":
		if err := arity(1); err != nil {
			return Value{}, err
		}
		return Number(e.round(args[0].ToNumber())), nil
	}
	return Value{}, errf("unknown function %v", name)
}

func (e *Env) round(f float64) float64 {
	if e.RoundHalfAwayNegative && f < -0.5 && !math.IsInf(f, 0) && math.Abs(f) < 1<<52 {
		if fl := math.Floor(f); f-fl == 0.5 {
			return fl
		}
	}
	return Round(f)
}

// Lang implements lang(): the nearest xml:lang on the ancestor-or-self
// elements (the parent's for non-elements) equals l or starts with l + "-",
// ignoring ASCII case; false when there is none.
func Lang(n *xmodel.Node, l string) bool {
	for m := n; m != nil; m = m.Parent {
		if m.Kind != xmodel.Elem {
			continue
		}
		for _, a := range m.Attrs {
			if a.Space == xmodel.XMLNS && a.Local == "lang" {
				v, w := asciiLower(a.Value), asciiLower(l)
				return v == w || strings.HasPrefix(v, w+"-")
			}
		}
	}
	return false
}

func asciiLower(s string) string {
	b := []byte(s)
	for i, c := range b {
		if c >= 'A' && c <= 'Z' {
			b[i] = c + 32
		}
	}
	return string(b)
}
