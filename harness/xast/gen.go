package xast

import (
	"pgregory.net/rapid"
)

// GenEnv tells the typed generators what the surrounding case offers.
type GenEnv struct {
	ElemNames []string // local names for element name tests
	AttrNames []string // local names for attribute name tests
	Prefixes  []string // prefixes bound in the query's namespace bindings
	PITargets []string
	NumVars   []string // QNames of bound variables by type
	StrVars   []string
	BoolVars  []string
	NodeVars  []string
	NodeFuncs []string // QNames of user functions returning node-sets (no arguments)
	Nums      []string // numeral pool for literals
	Strs      []string // string literal pool
	NoNSAxis  bool     // do not use the namespace axis
	NoAbs     bool     // relative paths only
	NoLang    bool
	FuncSteps bool // allow "P/f()" extension steps
}

var DefaultNums = []string{"0", "1", "2", "3", "10", "0.5", "1.5", "2.5", "100", ".5", "007", "3.0"}
var DefaultStrs = []string{"", "a", "b", "abc", "1", "10", " 2 ", "x y", "é", "-", "NaN", "true", "'sic'", "\"q\"", "'", "\"", "it's", "''a", "b\"\""}

type G struct {
	T   *rapid.T
	Env GenEnv
}

func (g *G) int(label string, lo, hi int) int { return rapid.IntRange(lo, hi).Draw(g.T, label) }
func (g *G) pick(label string, pool []string) string {
	return pool[g.int(label, 0, len(pool)-1)]
}
func (g *G) coin(label string, num, den int) bool { return g.int(label, 1, den) <= num }

func (g *G) nums() []string {
	if g.Env.Nums != nil {
		return g.Env.Nums
	}
	return DefaultNums
}
func (g *G) strs() []string {
	if g.Env.Strs != nil {
		return g.Env.Strs
	}
	return DefaultStrs
}

// Test draws a node test appropriate for the axis.
func (g *G) Test(axis string) Test {
	names := g.Env.ElemNames
	if axis == "attribute" {
		names = g.Env.AttrNames
	}
	if axis == "namespace" {
		// name tests on the namespace axis are outside the listed properties
		return Test{K: "node"}
	}
	if (axis == "parent" || axis == "self") && g.coin("dotTest", 1, 3) {
		return Test{K: "node"} // '..' and '.', the everyday spelling of these axes
	}
	k := g.int("testKind", 0, 11)
	switch {
	case k <= 4 && len(names) > 0:
		t := Test{K: "name", L: g.pick("testName", names)}
		if len(g.Env.Prefixes) > 0 && g.coin("testPrefixed", 1, 3) {
			t.P = g.pick("testPrefix", g.Env.Prefixes)
		}
		return t
	case k <= 6:
		return Test{K: "any"}
	case k == 7:
		return Test{K: "node"}
	case k == 8:
		if axis == "attribute" {
			return Test{K: "any"}
		}
		return Test{K: "text"}
	case k == 9 && len(g.Env.Prefixes) > 0:
		return Test{K: "nsany", P: g.pick("testPrefix", g.Env.Prefixes)}
	case k == 10 && len(names) > 0:
		return Test{K: "localany", L: g.pick("testName", names)}
	}
	switch g.int("testRare", 0, 3) {
	case 0:
		return Test{K: "comment"}
	case 1:
		return Test{K: "pi"}
	case 2:
		if len(g.Env.PITargets) > 0 {
			return Test{K: "pit", L: g.pick("piTarget", g.Env.PITargets)}
		}
	}
	return Test{K: "node"}
}

var commonAxes = []string{"child", "child", "child", "descendant", "attribute", "parent", "self", "descendant-or-self",
	"following-sibling", "preceding-sibling", "ancestor", "following", "preceding", "ancestor-or-self", "namespace"}

func (g *G) Axis() string {
	for {
		a := g.pick("axis", commonAxes)
		if a == "namespace" && g.Env.NoNSAxis {
			continue
		}
		return a
	}
}

// Step draws one location step with up to maxPreds predicates.
func (g *G) Step(depth, maxPreds int) *Step {
	ax := g.Axis()
	s := &Step{Axis: ax, Test: g.Test(ax)}
	if depth > 0 && maxPreds > 0 {
		n := g.int("nPreds", 0, maxPreds+2) - 2
		for i := 0; i < n; i++ {
			s.Preds = append(s.Preds, g.Pred(depth-1))
		}
	}
	return s
}

// Pred draws a predicate expression: positional numbers, position()/last()
// relations, booleans, node-sets, strings.
func (g *G) Pred(depth int) *Expr {
	switch g.int("predKind", 0, 9) {
	case 0, 1:
		return Num(g.pick("predIndex", []string{"1", "2", "3", "1", "2", "0", "1.5", "4", "10"}))
	case 2:
		return Call("last")
	case 3:
		op := g.pick("predPosOp", []string{"=", "!=", "<", "<=", ">", ">="})
		return Bin(op, Call("position"), g.smallNum())
	case 4:
		switch g.int("predLastKind", 0, 2) {
		case 0:
			return Bin("=", Call("position"), Call("last"))
		case 1:
			return Bin("-", Call("last"), Num("1"))
		}
		return Bin("<", Call("position"), Call("last"))
	case 5, 6:
		return g.NodeSet(depth, true)
	case 7:
		return g.Bool(depth)
	case 8:
		return g.Number(depth)
	}
	return g.String(depth)
}

func (g *G) smallNum() *Expr {
	return Num(g.pick("smallNum", []string{"1", "2", "3", "0", "2.5"}))
}

// RelPath draws a relative location path of 1..maxSteps steps.
func (g *G) RelPath(depth, maxSteps int) *Expr {
	n := g.int("nSteps", 1, maxSteps)
	p := &Expr{K: "path"}
	for i := 0; i < n; i++ {
		s := g.Step(depth, 2)
		if i > 0 && g.coin("dslash", 1, 6) {
			s.DS = true
		}
		p.Steps = append(p.Steps, s)
	}
	return p
}

// NodeSet draws a node-set-valued expression.  rel forces it to start from
// the context node (no leading '/').
func (g *G) NodeSet(depth int, rel bool) *Expr {
	k := g.int("nsKind", 0, 11)
	if depth <= 0 && k >= 8 {
		k = 0
	}
	switch {
	case k <= 6:
		p := g.RelPath(depth, 3)
		if !rel && !g.Env.NoAbs && g.coin("abs", 1, 2) {
			p.Abs = true
			if g.coin("absDS", 1, 3) {
				p.Steps[0].DS = true
			}
		}
		if g.Env.FuncSteps && g.coin("funcStep", 1, 12) {
			// handled by callers that want a non-node-set; keep node-set here
		}
		return p
	case k == 7:
		if len(g.Env.NodeVars) > 0 {
			v := Var(g.pick("nodeVar", g.Env.NodeVars))
			if g.coin("varPath", 1, 2) {
				f := Filter(v, nil)
				if g.coin("varPred", 1, 2) {
					f.BP = append(f.BP, g.Pred(depth-1))
				}
				if g.coin("varStep", 1, 2) {
					f.Steps = g.RelPath(depth-1, 2).Steps
					if g.coin("varDS", 1, 3) {
						f.Steps[0].DS = true // $v//step
					}
				}
				return f
			}
			return v
		}
		if !rel && !g.Env.NoAbs {
			return Path(true)
		}
		return g.RelPath(depth, 2)
	case k <= 9:
		return Union(g.NodeSet(depth-1, rel), g.NodeSet(depth-1, rel))
	default:
		base := g.NodeSet(depth-1, rel)
		f := Filter(base, nil)
		n := g.int("nFilterPreds", 0, 2)
		for i := 0; i < n; i++ {
			f.BP = append(f.BP, g.Pred(depth-1))
		}
		if g.coin("filterSteps", 1, 2) {
			f.Steps = g.RelPath(depth-1, 2).Steps
			if g.coin("filterDS", 1, 3) {
				f.Steps[0].DS = true // (E)//step
			}
		}
		return f
	}
}

func (g *G) Number(depth int) *Expr {
	k := g.int("numKind", 0, 13)
	if depth <= 0 && k >= 4 {
		k = k % 4
	}
	switch k {
	case 0, 1:
		return Num(g.pick("numLit", g.nums()))
	case 2:
		if len(g.Env.NumVars) > 0 {
			return Var(g.pick("numVar", g.Env.NumVars))
		}
		return Num(g.pick("numLit", g.nums()))
	case 3:
		return Call(g.pick("ctxNumFn", []string{"position", "last"}))
	case 4, 5:
		op := g.pick("arith", []string{"+", "-", "*", "div", "mod"})
		return Bin(op, g.Number(depth-1), g.Number(depth-1))
	case 6:
		return Neg(g.Number(depth - 1))
	case 7:
		return Call("count", g.NodeSet(depth-1, false))
	case 8:
		return Call("sum", g.NodeSet(depth-1, false))
	case 9:
		return Call(g.pick("roundFn", []string{"floor", "ceiling", "round"}), g.Number(depth-1))
	case 10:
		return Call("number", g.Any(depth-1))
	case 11:
		return Call("string-length", g.String(depth-1))
	case 12:
		// implicit conversion: a non-number operand of arithmetic
		return Bin("+", g.Any(depth-1), Num("0"))
	}
	return Call("number")
}

func (g *G) String(depth int) *Expr {
	k := g.int("strKind", 0, 13)
	if depth <= 0 && k >= 3 {
		k = k % 3
	}
	switch k {
	case 0, 1:
		return Str(g.pick("strLit", g.strs()))
	case 2:
		if len(g.Env.StrVars) > 0 {
			return Var(g.pick("strVar", g.Env.StrVars))
		}
		return Str(g.pick("strLit", g.strs()))
	case 3:
		return Call("string", g.Any(depth-1))
	case 4:
		return Call("concat", g.String(depth-1), g.Any(depth-1))
	case 5:
		return Call(g.pick("nameFn", []string{"name", "local-name", "namespace-uri"}), g.NodeSet(depth-1, false))
	case 6:
		return Call(g.pick("nameFn0", []string{"name", "local-name", "namespace-uri", "string", "normalize-space"}))
	case 7:
		return Call("substring", g.String(depth-1), g.Number(depth-1))
	case 8:
		return Call("substring", g.String(depth-1), g.Number(depth-1), g.Number(depth-1))
	case 9:
		return Call(g.pick("subFn", []string{"substring-before", "substring-after"}), g.String(depth-1), g.String(depth-1))
	case 10:
		return Call("normalize-space", g.String(depth-1))
	case 11:
		return Call("translate", g.String(depth-1), g.String(depth-1), g.String(depth-1))
	case 12:
		return Call("string", g.NodeSet(depth-1, false))
	}
	return Call("concat", g.String(depth-1), g.String(depth-1), g.String(depth-1))
}

func (g *G) Bool(depth int) *Expr {
	k := g.int("boolKind", 0, 11)
	if depth <= 0 && k >= 3 {
		k = k % 3
	}
	switch k {
	case 0:
		return Call("true")
	case 1:
		return Call("false")
	case 2:
		if len(g.Env.BoolVars) > 0 {
			return Var(g.pick("boolVar", g.Env.BoolVars))
		}
		return Call("true")
	case 3, 4, 5:
		op := g.pick("cmpOp", []string{"=", "!=", "<", "<=", ">", ">="})
		return Bin(op, g.Any(depth-1), g.Any(depth-1))
	case 6:
		return Bin(g.pick("logic", []string{"and", "or"}), g.Bool(depth-1), g.Bool(depth-1))
	case 7:
		return Call("not", g.Any(depth-1))
	case 8:
		return Call("boolean", g.Any(depth-1))
	case 9:
		return Call(g.pick("strPred", []string{"starts-with", "contains"}), g.String(depth-1), g.String(depth-1))
	case 10:
		if !g.Env.NoLang {
			return Call("lang", Str(g.pick("langArg", []string{"en", "EN", "en-US", "de", "e", "", "fr"})))
		}
		return Call("not", g.Bool(depth-1))
	}
	// implicit conversion to boolean
	return Bin("and", g.Any(depth-1), Call("true"))
}

// Any draws an expression of any of the four types.
func (g *G) Any(depth int) *Expr {
	switch g.int("anyType", 0, 6) {
	case 0, 1, 2:
		return g.NodeSet(depth, false)
	case 3, 4:
		return g.Number(depth)
	case 5:
		return g.String(depth)
	}
	return g.Bool(depth)
}

// RapidChooser adapts a rapid.T to the renderer's Chooser.
type RapidChooser struct{ T *rapid.T }

func (r RapidChooser) Coin(label string, num, den int) bool {
	if num <= 0 {
		return false
	}
	return rapid.IntRange(1, den).Draw(r.T, label) <= num
}
func (r RapidChooser) Pick(label string, n int) int { return rapid.IntRange(0, n-1).Draw(r.T, label) }
