package xast

import (
	"strings"
	"unicode"
)

// Chooser supplies the renderer's style decisions.  With a rapid-backed
// chooser every decision is a rapid draw (so cases shrink and replay); the
// Minimal chooser always says no.
type Chooser interface {
	Coin(label string, num, den int) bool // true with probability num/den
	Pick(label string, n int) int         // 0..n-1
}

type minimal struct{}

func (minimal) Coin(string, int, int) bool { return false }
func (minimal) Pick(string, int) int       { return 0 }

// Minimal renders with minimal parentheses, no optional whitespace, and
// unabbreviated steps.
var Minimal Chooser = minimal{}

type abbrev struct{}

func (abbrev) Coin(label string, _, _ int) bool { return label == "abbrev" }
func (abbrev) Pick(string, int) int             { return 0 }

// Abbrev renders like Minimal but uses every abbreviation.
var Abbrev Chooser = abbrev{}

// Style selects which families of decisions the chooser is asked about.
type Style struct {
	Parens bool // redundant parentheses
	WS     bool // optional whitespace
	Abbrev bool // abbreviated steps where legal
}

type tok struct {
	s     string
	glue  bool // no whitespace may be inserted before this token (inside a lexical unit)
	isNum bool
}

type renderer struct {
	c    Chooser
	st   Style
	toks []tok
}

func prec(x *Expr) int {
	switch x.K {
	case "or":
		return 1
	case "and":
		return 2
	case "=", "!=":
		return 3
	case "<", "<=", ">", ">=":
		return 4
	case "+", "-":
		return 5
	case "*", "div", "mod":
		return 6
	case "neg":
		return 7
	case "|":
		return 8
	}
	return 9
}

func isBareRoot(x *Expr) bool {
	return x.K == "path" && x.Abs && x.Base == nil && len(x.Steps) == 0
}

// Render prints the expression as XPath text.
func Render(x *Expr, c Chooser, st Style) string {
	r := &renderer{c: c, st: st}
	r.expr(x, 0, false)
	return r.join()
}

// RenderMinimal is the canonical rendering.
func RenderMinimal(x *Expr) string { return Render(x, Minimal, Style{}) }

func (r *renderer) emit(s string)     { r.toks = append(r.toks, tok{s: s}) }
func (r *renderer) emitGlue(s string) { r.toks = append(r.toks, tok{s: s, glue: true}) }

// expr renders x where the context requires precedence >= min; force wraps
// in parentheses regardless.
func (r *renderer) expr(x *Expr, min int, force bool) {
	wrap := force || prec(x) < min
	if !wrap && r.st.Parens && r.c.Coin("paren", 1, 5) {
		wrap = true
	}
	if wrap {
		r.emit("(")
		r.expr(x, 0, false)
		r.emit(")")
		return
	}
	switch x.K {
	case "or", "and", "=", "!=", "<", "<=", ">", ">=", "+", "-", "*", "div", "mod":
		p := prec(x)
		leftForce := false
		switch x.K {
		case "*", "div", "mod", "and", "or":
			// XPath 3.7: after the operator '/' a '*' or NCName is not an
			// operator, so a bare '/' on the left needs parentheses.
			leftForce = endsWithBareRoot(x.A[0])
		}
		r.expr(x.A[0], p, leftForce)
		r.emit(x.K)
		r.expr(x.A[1], p+1, false)
	case "neg":
		r.emit("-")
		r.expr(x.A[0], 7, false)
	case "|":
		r.expr(x.A[0], 8, false)
		r.emit("|")
		r.expr(x.A[1], 9, false)
	case "num":
		r.toks = append(r.toks, tok{s: x.S, isNum: true})
	case "str":
		r.emit(quote(x.S, r.c))
	case "var":
		r.emit("$" + x.S)
	case "call":
		r.call(x)
	case "path":
		r.path(x)
	}
}

// endsWithBareRoot: would the rendered text of x end with the '/' operator
// token of a bare root path (without parentheses around it)?
func endsWithBareRoot(x *Expr) bool {
	if isBareRoot(x) {
		return true
	}
	switch x.K {
	case "or", "and", "=", "!=", "<", "<=", ">", ">=", "+", "-", "*", "div", "mod", "|":
		// right operand is rendered last; it is parenthesised only when its
		// precedence is too low, in which case it ends with ')'.
		right := x.A[1]
		need := prec(x) + 1
		if x.K == "|" {
			need = 9
		}
		if prec(right) < need {
			return false
		}
		return endsWithBareRoot(right)
	case "neg":
		if prec(x.A[0]) < 7 {
			return false
		}
		return endsWithBareRoot(x.A[0])
	}
	return false
}

func quote(s string, c Chooser) string {
	hasS := strings.Contains(s, "'")
	hasD := strings.Contains(s, "\"")
	switch {
	case hasS && hasD:
		panic("xast: literal with both quote characters cannot be rendered: " + s)
	case hasS:
		return "\"" + s + "\""
	case hasD:
		return "'" + s + "'"
	}
	if c.Coin("dquote", 1, 3) {
		return "\"" + s + "\""
	}
	return "'" + s + "'"
}

func (r *renderer) call(x *Expr) {
	r.emit(x.S)
	r.emit("(")
	for i, a := range x.A {
		if i > 0 {
			r.emit(",")
		}
		r.expr(a, 0, false)
	}
	r.emit(")")
}

func (r *renderer) preds(ps []*Expr) {
	for _, p := range ps {
		r.emit("[")
		r.expr(p, 0, false)
		r.emit("]")
	}
}

func (r *renderer) path(x *Expr) {
	first := true
	if x.Base != nil {
		switch x.Base.K {
		case "num", "str", "var", "call":
			r.expr(x.Base, 9, false)
		default:
			r.emit("(")
			r.expr(x.Base, 0, false)
			r.emit(")")
		}
		r.preds(x.BP)
		first = false
	} else if x.Abs && len(x.Steps) == 0 {
		r.emit("/")
		return
	}
	for i, s := range x.Steps {
		switch {
		case s.DS && r.abbr():
			if i == 0 && !x.Abs && first {
				// a relative path cannot begin with '//': './/step'
				r.emit(".")
			}
			r.emit("//")
		case s.DS:
			if i > 0 || x.Abs || !first {
				r.emit("/")
			}
			r.emit("descendant-or-self")
			r.emit("::")
			r.emit("node")
			r.emit("(")
			r.emit(")")
			r.emit("/")
		default:
			if i > 0 || x.Abs || !first {
				r.emit("/")
			}
		}
		r.step(s)
	}
}

func (r *renderer) abbr() bool {
	return r.st.Abbrev && r.c.Coin("abbrev", 3, 4)
}

func (r *renderer) step(s *Step) {
	if s.Call != nil {
		r.call(s.Call)
		return
	}
	if len(s.Preds) == 0 && s.Test.K == "node" {
		if s.Axis == "self" && r.abbr() {
			r.emit(".")
			return
		}
		if s.Axis == "parent" && r.abbr() {
			r.emit("..")
			return
		}
	}
	switch {
	case s.Axis == "child" && r.abbr():
	case s.Axis == "attribute" && r.abbr():
		r.emit("@")
	default:
		r.emit(s.Axis)
		r.emit("::")
	}
	switch s.Test.K {
	case "name":
		if s.Test.P != "" {
			r.emit(s.Test.P + ":" + s.Test.L)
		} else {
			r.emit(s.Test.L)
		}
	case "any":
		r.emit("*")
	case "nsany":
		r.emit(s.Test.P + ":*")
	case "localany":
		r.emit("*:" + s.Test.L)
	case "node", "text", "comment":
		r.emit(s.Test.K)
		r.emit("(")
		r.emit(")")
	case "pi":
		r.emit("processing-instruction")
		r.emit("(")
		r.emit(")")
	case "pit":
		r.emit("processing-instruction")
		r.emit("(")
		r.emit(quote(s.Test.L, r.c))
		r.emit(")")
	}
	r.preds(s.Preds)
}

func nameish(r rune) bool {
	return unicode.IsLetter(r) || unicode.IsDigit(r) || r == '.' || r == '-' || r == '_' || r == '#' || r >= 0x80 || r == ':' || r == '$' || r == '*'
}

func isWordOp(s string) bool {
	switch s {
	case "and", "or", "div", "mod":
		return true
	}
	return false
}

// needSpace: must white space separate a and b so that XPath's longest-token
// rule reads them as the two intended tokens?
func needSpace(a, b tok) bool {
	if a.s == "" || b.s == "" {
		return false
	}
	ar := []rune(a.s)
	la := ar[len(ar)-1]
	fb := []rune(b.s)[0]
	if a.s[0] == '\'' || a.s[0] == '"' || b.s[0] == '\'' || b.s[0] == '"' {
		return false
	}
	if !nameish(la) || !nameish(fb) {
		return false
	}
	// '*' is only name-ish when part of a name test token such as p:* or *:x;
	// a lone '*' never merges with its neighbours except "**" which cannot occur
	if a.s == "*" || b.s == "*" {
		// "* *" vs "**": two tokens either way
		return false
	}
	if a.s == "-" {
		return false // a minus sign never starts a name: "--8", "-a"
	}
	if a.isNum && b.s == "-" {
		return false // "1-2" reads as 1 - 2
	}
	if b.s == "::" || a.s == "::" || b.s == ":" {
		return false
	}
	return true
}

var spaces = []string{" ", "  ", "\t", "\n", "\r\n", " \n "}

func (r *renderer) join() string {
	var sb strings.Builder
	for i, t := range r.toks {
		if i > 0 {
			prev := r.toks[i-1]
			if needSpace(prev, t) {
				if r.st.WS && r.c.Coin("ws", 1, 3) {
					sb.WriteString(spaces[r.c.Pick("wsKind", len(spaces))])
				} else {
					sb.WriteString(" ")
				}
			} else if r.st.WS && !t.glue && r.c.Coin("ws", 1, 3) {
				sb.WriteString(spaces[r.c.Pick("wsKind", len(spaces))])
			}
		} else if r.st.WS && r.c.Coin("ws", 1, 6) {
			sb.WriteString(spaces[r.c.Pick("wsKind", len(spaces))])
		}
		sb.WriteString(t.s)
	}
	if r.st.WS && r.c.Coin("ws", 1, 6) {
		sb.WriteString(spaces[r.c.Pick("wsKind", len(spaces))])
	}
	return sb.String()
}

// Tokens returns the minimal-style token strings of x (each token is one
// lexical unit: names, QNames, variable references, numbers, literals,
// operators, punctuation).
func Tokens(x *Expr) []string {
	r := &renderer{c: Minimal}
	r.expr(x, 0, false)
	out := make([]string, len(r.toks))
	for i, t := range r.toks {
		out[i] = t.s
	}
	return out
}

// JoinTokens glues token strings with the white space XPath's longest-token
// rule requires and nothing else.
func JoinTokens(toks []string) string {
	r := &renderer{c: Minimal}
	for _, s := range toks {
		isNum := s != "" && strings.Trim(s, "0123456789.") == "" && s != "." && s != ".."
		r.toks = append(r.toks, tok{s: s, isNum: isNum})
	}
	return r.join()
}
