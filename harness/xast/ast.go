// Package xast is the harness's XPath 1.0 abstract syntax (plus xsel's
// documented extensions), its typed generators and its renderer.
package xast

// Expr kinds (K):
//
//	or and = != < <= > >= + - * div mod   binary, A[0] op A[1]
//	neg                                     unary minus, A[0]
//	|                                       union, A[0] | A[1]
//	num  S = numeral text                   str  S = literal value
//	var  S = QName                          call S = QName, A = arguments
//	path location path or filter-expression path (see fields)
type Expr struct {
	K string  `json:"k"`
	A []*Expr `json:"a,omitempty"`
	S string  `json:"s,omitempty"`

	Abs   bool    `json:"abs,omitempty"`   // path: starts with '/' (or '//' when Steps[0].DS)
	Base  *Expr   `json:"base,omitempty"`  // path: filter-expression base (nil: location path)
	BP    []*Expr `json:"bp,omitempty"`    // path: predicates applied to Base
	Steps []*Step `json:"steps,omitempty"` // path: steps
}

type Step struct {
	DS    bool    `json:"ds,omitempty"` // preceded by '//' instead of '/'
	Axis  string  `json:"axis,omitempty"`
	Test  Test    `json:"test"`
	Preds []*Expr `json:"preds,omitempty"`
	Call  *Expr   `json:"call,omitempty"` // extension: a function call used as a step
}

// Test kinds: name (P:L, P may be empty), any (*), nsany (P:*), localany
// (*:L, extension), node, text, comment, pi, pit (pi with literal L).
type Test struct {
	K string `json:"k"`
	P string `json:"p,omitempty"`
	L string `json:"l,omitempty"`
}

var Axes = []string{"child", "descendant", "parent", "ancestor", "following-sibling", "preceding-sibling",
	"following", "preceding", "attribute", "namespace", "self", "descendant-or-self", "ancestor-or-self"}

func IsReverse(axis string) bool {
	switch axis {
	case "ancestor", "ancestor-or-self", "preceding", "preceding-sibling":
		return true
	}
	return false
}

// Constructors.

func Bin(op string, l, r *Expr) *Expr { return &Expr{K: op, A: []*Expr{l, r}} }
func Neg(x *Expr) *Expr               { return &Expr{K: "neg", A: []*Expr{x}} }
func Num(s string) *Expr              { return &Expr{K: "num", S: s} }
func Str(s string) *Expr              { return &Expr{K: "str", S: s} }
func Var(q string) *Expr              { return &Expr{K: "var", S: q} }
func Call(q string, a ...*Expr) *Expr { return &Expr{K: "call", S: q, A: a} }
func Union(l, r *Expr) *Expr          { return &Expr{K: "|", A: []*Expr{l, r}} }
func Path(abs bool, steps ...*Step) *Expr {
	return &Expr{K: "path", Abs: abs, Steps: steps}
}
func Filter(base *Expr, preds []*Expr, steps ...*Step) *Expr {
	return &Expr{K: "path", Base: base, BP: preds, Steps: steps}
}
func S(axis string, t Test, preds ...*Expr) *Step { return &Step{Axis: axis, Test: t, Preds: preds} }
func DS(axis string, t Test, preds ...*Expr) *Step {
	return &Step{DS: true, Axis: axis, Test: t, Preds: preds}
}
func Name(p, l string) Test { return Test{K: "name", P: p, L: l} }
func NodeT() Test           { return Test{K: "node"} }
func Any() Test             { return Test{K: "any"} }

// Walk visits every expression node (pre-order), including predicates and
// step calls.
func Walk(x *Expr, f func(*Expr)) {
	if x == nil {
		return
	}
	f(x)
	for _, a := range x.A {
		Walk(a, f)
	}
	Walk(x.Base, f)
	for _, p := range x.BP {
		Walk(p, f)
	}
	for _, s := range x.Steps {
		Walk(s.Call, f)
		for _, p := range s.Preds {
			Walk(p, f)
		}
	}
}

// WalkSteps visits every step of every path.
func WalkSteps(x *Expr, f func(*Step)) {
	Walk(x, func(e *Expr) {
		for _, s := range e.Steps {
			f(s)
		}
	})
}

// UsesReverseAxis reports whether any step uses a reverse axis (".." counts:
// parent is a reverse axis of one node at most, but the library keeps it
// forward; callers decide).
func UsesReverseAxis(x *Expr) bool {
	r := false
	WalkSteps(x, func(s *Step) {
		if IsReverse(s.Axis) {
			r = true
		}
	})
	return r
}

// Size counts AST nodes.
func Size(x *Expr) int {
	n := 0
	Walk(x, func(*Expr) { n++ })
	WalkSteps(x, func(*Step) { n++ })
	return n
}
