// Package xparse is the harness's own recursive-descent parser for XPath 1.0
// plus xsel's documented extensions (a function call as a path step,
// "*:local" name tests, '#' in names).  It is independent of the gogll
// grammar.  Two modes form a sandwich around "is this string an expression":
//
//	Strict  - exactly XPath 1.0 (incl. the section 3.7 lexical rules) + the
//	          documented extensions, minus the forms listed as open known
//	          findings (so: every strict-valid string must be accepted).
//	Lenient - additionally admits what is debatable or known to be let
//	          through by the generated lexer (white space inside QNames and
//	          after '$', Unicode white space, backslash escapes in literals,
//	          '*' and operator names read without the preceding-token rule,
//	          a Number split by white space): every accepted string must be
//	          lenient-valid.
//
// Strings that only the lenient mode accepts are not judged.
package xparse

import (
	"fmt"
	"strings"
	"unicode"

	"verif/xast"
)

type Mode int

const (
	Strict Mode = iota
	Lenient
)

type tokKind int

const (
	tEOF      tokKind = iota
	tPunct            // ( ) [ ] . .. @ , ::
	tOp               // and or mod div * / // | + - = != < <= > >=
	tNameTest         // * | p:* | *:l | QName  (as a node test)
	tNodeType         // comment text processing-instruction node  (followed by '(')
	tFunc             // function name (followed by '(')
	tAxis             // axis name (followed by '::')
	tLiteral
	tNumber
	tVar
)

type token struct {
	k tokKind
	s string // text; for literals the value; for variables the QName
}

type lexer struct {
	rs   []rune
	i    int
	mode Mode
	prev *token
	// Lenient features that were needed to read the string
	Features map[string]bool
	// Lenient only: at the k-th point where the preceding token is the
	// operator '/' and a '*' or an operator name follows, choice bit k says
	// "read it as an operator" (the generated lexer has no preceding-token
	// rule, so the generated parser tries both readings).
	choices uint
	nAmbig  int
	// Lenient only: read backslash-quote inside literals as an escape (second
	// attempt when the XPath reading of the literals does not parse)
	litEscapes bool
	// Lenient only: do not read keyword look-alikes as the keyword (the
	// generated lexer does so for some characters at the hyphen positions
	// and not for others; both readings are tried)
	plainLookalikes bool
}

func isXMLSpace(r rune) bool { return r == ' ' || r == '\t' || r == '\r' || r == '\n' }

func (l *lexer) isSpace(r rune) bool {
	if isXMLSpace(r) {
		return true
	}
	if l.mode == Lenient && unicode.IsSpace(r) {
		l.Features["unicode-space"] = true
		return true
	}
	return false
}

// The XML name tables differ between editions; the recogniser is generous
// (every non-ASCII character that is not white space may be part of a name)
// and Strict separately refuses to vouch for names outside a conservative
// alphabet.
func nameStart(r rune) bool {
	return unicode.IsLetter(r) || r == '_' || r == '#' || r > 0x7F && !unicode.IsSpace(r)
}

func nameChar(r rune) bool {
	return r > 0x7F && !unicode.IsSpace(r) || unicode.IsLetter(r) || unicode.IsDigit(r) || r == '.' || r == '-' || r == '_' || r == '#' ||
		unicode.Is(unicode.Mn, r) || unicode.Is(unicode.Mc, r) || r == 0xB7 || r == 0x387 || unicode.Is(unicode.Lm, r) || unicode.Is(unicode.Nd, r)
}

// conservativeName: names over an alphabet on which every XML name table
// agrees (ASCII and Latin letters, ASCII digits, '.', '-', '_', '#').  Strict
// mode only vouches for these.
func conservativeName(s string) bool {
	for _, r := range s {
		ok := r < 0x250 && unicode.IsLetter(r) || r >= '0' && r <= '9' || r == '.' || r == '-' || r == '_' || r == '#'
		if !ok {
			return false
		}
	}
	return true
}

func (l *lexer) skipSpace() {
	for l.i < len(l.rs) && l.isSpace(l.rs[l.i]) {
		l.i++
	}
}

func (l *lexer) ncname() string {
	j := l.i
	if j < len(l.rs) && nameStart(l.rs[j]) {
		j++
		for j < len(l.rs) && nameChar(l.rs[j]) {
			j++
		}
	}
	s := string(l.rs[l.i:j])
	l.i = j
	if l.mode == Strict && s != "" && (!conservativeName(s) || s[0] == '_') {
		panic(parseError{fmt.Errorf("strict mode does not vouch for the name %q", s)})
	}
	return s
}

func (l *lexer) peekAfterSpace(at int) (rune, rune) {
	j := at
	for j < len(l.rs) && l.isSpace(l.rs[j]) {
		j++
	}
	var a, b rune
	if j < len(l.rs) {
		a = l.rs[j]
	}
	if j+1 < len(l.rs) {
		b = l.rs[j+1]
	}
	return a, b
}

// operatorContext: by XPath 3.7, is a '*' / NCName here an operator?
func (l *lexer) operatorContext(couldBeOperator bool) bool {
	p := l.prev
	if p == nil {
		return false
	}
	if p.k == tOp {
		if p.s == "/" && l.mode == Lenient && couldBeOperator {
			// ambiguous for the generated parser: try both readings
			k := l.nAmbig
			l.nAmbig++
			if k < 32 && l.choices&(1<<uint(k)) != 0 {
				l.Features["operator-after-slash"] = true
				return true
			}
		}
		return false
	}
	if p.k == tPunct {
		switch p.s {
		case "@", "::", "(", "[", ",":
			return false
		}
	}
	return true
}

var nodeTypes = map[string]bool{"comment": true, "text": true, "processing-instruction": true, "node": true}
var axisNames = map[string]bool{"ancestor": true, "ancestor-or-self": true, "attribute": true, "child": true, "descendant": true,
	"descendant-or-self": true, "following": true, "following-sibling": true, "namespace": true, "parent": true, "preceding": true,
	"preceding-sibling": true, "self": true}
var opNames = map[string]bool{"and": true, "or": true, "mod": true, "div": true}

var hyphenated = []string{"ancestor-or-self", "descendant-or-self", "following-sibling", "preceding-sibling", "processing-instruction"}

// lookalike: the generated lexer reads a name that differs from a hyphenated
// keyword only at the hyphen positions (another non-letter name character
// there) as that keyword - a known finding.  Returns the keyword or "".
func lookalike(name string) string {
	rs := []rune(name)
	for _, k := range hyphenated {
		ks := []rune(k)
		if len(ks) != len(rs) {
			continue
		}
		ok := true
		for i := range ks {
			if ks[i] == rs[i] {
				continue
			}
			if ks[i] == '-' && !unicode.IsLetter(rs[i]) && nameChar(rs[i]) {
				continue
			}
			ok = false
			break
		}
		if ok {
			return k
		}
	}
	return ""
}

// reservedWord: the generated lexer turns these spellings into keyword
// tokens, so they cannot be function names (or parts of them).
func reservedWord(q string) bool {
	for _, part := range strings.Split(q, ":") {
		if axisNames[part] || opNames[part] || nodeTypes[part] {
			return true
		}
	}
	return false
}

func (l *lexer) next() (token, error) {
	t, err := l.scan()
	if err == nil {
		tt := t
		l.prev = &tt
	}
	return t, err
}

func (l *lexer) scan() (token, error) {
	l.skipSpace()
	if l.i >= len(l.rs) {
		return token{k: tEOF}, nil
	}
	r := l.rs[l.i]
	two := ""
	if l.i+1 < len(l.rs) {
		two = string(l.rs[l.i : l.i+2])
	}
	switch {
	case two == "//" || two == "!=" || two == "<=" || two == ">=":
		l.i += 2
		return token{tOp, two}, nil
	case two == "::":
		l.i += 2
		return token{tPunct, "::"}, nil
	case two == "..":
		l.i += 2
		return token{tPunct, ".."}, nil
	case r == '.' && l.i+1 < len(l.rs) && l.rs[l.i+1] >= '0' && l.rs[l.i+1] <= '9':
		return l.number()
	case r >= '0' && r <= '9':
		return l.number()
	case r == '.':
		// Lenient: ". 5" - a Number split by white space (known finding)
		if l.mode == Lenient {
			if a, _ := l.peekAfterSpace(l.i + 1); a >= '0' && a <= '9' && l.i+1 < len(l.rs) && l.isSpace(l.rs[l.i+1]) {
				l.Features["number-split-by-space"] = true
			}
		}
		l.i++
		return token{tPunct, "."}, nil
	case strings.ContainsRune("()[]@,", r):
		l.i++
		return token{tPunct, string(r)}, nil
	case strings.ContainsRune("/|+-=<>", r):
		l.i++
		return token{tOp, string(r)}, nil
	case r == '!':
		return token{}, fmt.Errorf("'!' without '='")
	case r == '"' || r == '\'':
		j := l.i + 1
		for j < len(l.rs) {
			if l.rs[j] == r {
				// a quote after a backslash: XPath ends the literal here; the
				// generated lexer may also read an escape (both are tried)
				if l.mode == Lenient && l.rs[j-1] == '\\' && j-1 > l.i && l.litEscapes {
					l.Features["backslash-in-literal"] = true
					j++
					continue
				}
				break
			}
			j++
		}
		if j >= len(l.rs) {
			return token{}, fmt.Errorf("unterminated literal")
		}
		v := string(l.rs[l.i+1 : j])
		if l.mode == Strict && r == '"' && strings.Contains(v, "\\") {
			return token{}, fmt.Errorf("known finding: backslash in a double-quoted literal")
		}
		if l.mode == Strict && strings.HasSuffix(v, "\\") {
			return token{}, fmt.Errorf("known finding: literal ending in a backslash")
		}
		l.i = j + 1
		return token{tLiteral, v}, nil
	case r == '$':
		l.i++
		if l.mode == Lenient {
			before := l.i
			l.skipSpace()
			if l.i != before {
				l.Features["space-after-dollar"] = true
			}
		}
		q, err := l.qname()
		if err != nil {
			return token{}, fmt.Errorf("bad variable reference: %v", err)
		}
		// Lenient: the generated lexer's variable token is a repetition of
		// names, so "$a:bb:c" is read as (a:b)(b:c) and accepted (known finding)
		for l.mode == Lenient && l.i+1 < len(l.rs) && l.rs[l.i] == ':' && l.rs[l.i+1] != ':' && nameStart(l.rs[l.i+1]) {
			l.i++
			l.ncname()
			l.Features["variable-reference-extra-colon"] = true
		}
		return token{tVar, q}, nil
	case r == '*':
		l.i++
		if l.operatorContext(true) {
			return token{tOp, "*"}, nil
		}
		// "*:local" extension
		save := l.i
		if l.mode == Lenient {
			l.skipSpace()
		}
		if l.i < len(l.rs) && l.rs[l.i] == ':' && !(l.i+1 < len(l.rs) && l.rs[l.i+1] == ':') {
			k := l.i + 1
			l.i = k
			if l.mode == Lenient {
				l.skipSpace()
			}
			if n := l.ncname(); n != "" {
				if l.i-len([]rune(n)) != k || save != k-1 {
					l.Features["space-in-qname"] = true
				}
				return token{tNameTest, "*:" + n}, nil
			}
		}
		l.i = save
		return token{tNameTest, "*"}, nil
	case nameStart(r):
		start := l.i
		n := l.ncname()
		if l.operatorContext(opNames[n]) {
			if opNames[n] {
				return token{tOp, n}, nil
			}
			return token{}, fmt.Errorf("name %q where an operator is required", n)
		}
		// QName / p:* ?
		name := n
		save := l.i
		if l.mode == Lenient {
			l.skipSpace()
		}
		if l.i < len(l.rs) && l.rs[l.i] == ':' && !(l.i+1 < len(l.rs) && l.rs[l.i+1] == ':') {
			afterColon := l.i + 1
			l.i = afterColon
			if l.mode == Lenient {
				l.skipSpace()
			}
			spaced := l.i != afterColon || save != afterColon-1
			if l.i < len(l.rs) && l.rs[l.i] == '*' {
				l.i++
				if spaced {
					l.Features["space-in-qname"] = true
				}
				return token{tNameTest, n + ":*"}, nil
			}
			if loc := l.ncname(); loc != "" {
				if spaced {
					l.Features["space-in-qname"] = true
				}
				name = n + ":" + loc
			} else {
				return token{}, fmt.Errorf("':' after %q is not followed by a name", n)
			}
		} else {
			l.i = save
		}
		if k := lookalike(name); k != "" && k != name {
			if l.mode == Strict {
				return token{}, fmt.Errorf("known finding: name that looks like the keyword %s", k)
			}
			l.Features["keyword-lookalike"] = true
			if a, b := l.peekAfterSpace(l.i); (a == '(' || a == ':' && b == ':') && !l.plainLookalikes {
				name = k // read as the keyword, as the generated lexer does
			}
		}
		a, b := l.peekAfterSpace(l.i)
		if a == '(' {
			if nodeTypes[name] {
				return token{tNodeType, name}, nil
			}
			if l.mode == Strict && reservedWord(name) {
				return token{}, fmt.Errorf("known finding: function name spelled like an axis or operator")
			}
			return token{tFunc, name}, nil
		}
		if a == ':' && b == ':' {
			if !axisNames[name] {
				return token{}, fmt.Errorf("%q is not an axis", name)
			}
			return token{tAxis, name}, nil
		}
		if l.mode == Strict {
			if strings.HasPrefix(n, "_") || strings.Contains(name, ":_") {
				return token{}, fmt.Errorf("known finding: name starting with '_'")
			}
			if opNames[name] || (strings.Contains(name, ":") && (opNames[name[:strings.Index(name, ":")]] || opNames[name[strings.Index(name, ":")+1:]])) {
				return token{}, fmt.Errorf("known finding: operator-named name test")
			}
		}
		_ = start
		return token{tNameTest, name}, nil
	}
	return token{}, fmt.Errorf("illegal character %q", r)
}

func (l *lexer) qname() (string, error) {
	n := l.ncname()
	if n == "" {
		return "", fmt.Errorf("name expected")
	}
	save := l.i
	if l.mode == Lenient {
		l.skipSpace()
	}
	if l.i < len(l.rs) && l.rs[l.i] == ':' && !(l.i+1 < len(l.rs) && l.rs[l.i+1] == ':') {
		k := l.i + 1
		l.i = k
		if l.mode == Lenient {
			l.skipSpace()
		}
		if loc := l.ncname(); loc != "" {
			if l.i-len([]rune(loc)) != k || save != k-1 {
				l.Features["space-in-qname"] = true
			}
			return n + ":" + loc, nil
		}
		return "", fmt.Errorf("local part expected after ':'")
	}
	l.i = save
	return n, nil
}

func (l *lexer) number() (token, error) {
	j := l.i
	digits := func() {
		for j < len(l.rs) && l.rs[j] >= '0' && l.rs[j] <= '9' {
			j++
		}
	}
	if l.rs[j] == '.' {
		j++
		digits()
	} else {
		digits()
		if j < len(l.rs) && l.rs[j] == '.' && !(j+1 < len(l.rs) && l.rs[j+1] == '.') {
			k := j + 1
			if k < len(l.rs) && l.rs[k] >= '0' && l.rs[k] <= '9' {
				j = k
				digits()
			} else if l.mode == Strict {
				return token{}, fmt.Errorf("known finding: Number with a trailing '.'")
			} else {
				// "1." is valid XPath; also "1 . 5"-style splits are read as tokens later
				j = k
			}
		}
	}
	s := string(l.rs[l.i:j])
	l.i = j
	return token{tNumber, s}, nil
}

// ---- parser ----

type parser struct {
	lx   *lexer
	tok  token
	err  error
	mode Mode
}

// Parse parses text; err == nil means the string is an expression in the
// given mode.  Features lists the lenient features that were used.
func Parse(text string, mode Mode) (e *xast.Expr, features map[string]bool, err error) {
	e, features, err = parseLit(text, mode, false, false)
	if err == nil || mode == Strict {
		return e, features, err
	}
	for _, v := range [][2]bool{{false, true}, {true, false}, {true, true}} {
		if v[0] && !strings.Contains(text, "\\") {
			continue
		}
		if e2, f2, err2 := parseLit(text, mode, v[0], v[1]); err2 == nil {
			return e2, f2, nil
		}
	}
	return e, features, err
}

func parseLit(text string, mode Mode, litEscapes, plainLookalikes bool) (e *xast.Expr, features map[string]bool, err error) {
	e, features, nAmbig, err := parseWith(text, mode, 0, litEscapes, plainLookalikes)
	if err == nil || mode == Strict || nAmbig == 0 {
		return e, features, err
	}
	// an attempt that fails early sees only some of the ambiguous points;
	// later attempts may reveal more
	for c := uint(1); c < 1<<uint(nAmbig) && c < 1<<10; c++ {
		e2, f2, n2, err2 := parseWith(text, mode, c, litEscapes, plainLookalikes)
		if err2 == nil {
			return e2, f2, nil
		}
		if n2 > nAmbig {
			nAmbig = n2
		}
	}
	if nAmbig > 10 {
		// more ambiguous points than are enumerated: every point read the
		// lenient way, and failing that no judgement at all
		if e2, f2, _, err2 := parseWith(text, mode, 1<<32-1, litEscapes, plainLookalikes); err2 == nil {
			return e2, f2, nil
		}
		return nil, map[string]bool{"too-ambiguous-to-judge": true}, nil
	}
	return nil, features, err
}

func parseWith(text string, mode Mode, choices uint, litEscapes, plainLookalikes bool) (e *xast.Expr, features map[string]bool, nAmbig int, err error) {
	lx := &lexer{rs: []rune(text), mode: mode, Features: map[string]bool{}, choices: choices, litEscapes: litEscapes, plainLookalikes: plainLookalikes}
	p := &parser{lx: lx, mode: mode}
	defer func() {
		nAmbig = lx.nAmbig
		if r := recover(); r != nil {
			if pe, ok := r.(parseError); ok {
				e, features, err = nil, lx.Features, pe.err
				return
			}
			panic(r)
		}
	}()
	p.advance()
	e = p.orExpr()
	if p.tok.k != tEOF {
		p.fail("unexpected %q after the expression", p.tok.s)
	}
	return e, lx.Features, lx.nAmbig, nil
}

type parseError struct{ err error }

func (p *parser) fail(format string, a ...any) {
	panic(parseError{fmt.Errorf(format, a...)})
}

func (p *parser) advance() {
	t, err := p.lx.next()
	if err != nil {
		panic(parseError{err})
	}
	p.tok = t
}

func (p *parser) isOp(s string) bool    { return p.tok.k == tOp && p.tok.s == s }
func (p *parser) isPunct(s string) bool { return p.tok.k == tPunct && p.tok.s == s }

func (p *parser) expectPunct(s string) {
	if !p.isPunct(s) {
		p.fail("%q expected, found %q", s, p.tok.s)
	}
	p.advance()
}

func (p *parser) binary(next func() *xast.Expr, ops ...string) *xast.Expr {
	l := next()
	for {
		matched := ""
		for _, o := range ops {
			if p.isOp(o) {
				matched = o
			}
		}
		if matched == "" {
			return l
		}
		p.advance()
		r := next()
		l = xast.Bin(matched, l, r)
	}
}

func (p *parser) orExpr() *xast.Expr  { return p.binary(p.andExpr, "or") }
func (p *parser) andExpr() *xast.Expr { return p.binary(p.eqExpr, "and") }
func (p *parser) eqExpr() *xast.Expr  { return p.binary(p.relExpr, "=", "!=") }
func (p *parser) relExpr() *xast.Expr { return p.binary(p.addExpr, "<", "<=", ">", ">=") }
func (p *parser) addExpr() *xast.Expr { return p.binary(p.mulExpr, "+", "-") }
func (p *parser) mulExpr() *xast.Expr { return p.binary(p.unaryExpr, "*", "div", "mod") }

func (p *parser) unaryExpr() *xast.Expr {
	if p.isOp("-") {
		p.advance()
		return xast.Neg(p.unaryExpr())
	}
	return p.unionExpr()
}

func (p *parser) unionExpr() *xast.Expr {
	l := p.pathExpr()
	for p.isOp("|") {
		p.advance()
		r := p.pathExpr()
		l = xast.Union(l, r)
	}
	return l
}

func (p *parser) startsPrimary() bool {
	switch p.tok.k {
	case tLiteral, tNumber, tVar, tFunc:
		return true
	case tPunct:
		return p.tok.s == "("
	}
	return false
}

func (p *parser) startsStep() bool {
	switch p.tok.k {
	case tNameTest, tNodeType, tAxis, tFunc:
		return true
	case tPunct:
		return p.tok.s == "." || p.tok.s == ".." || p.tok.s == "@"
	}
	return false
}

func (p *parser) pathExpr() *xast.Expr {
	// Lenient: ". 5" - the generated parser assembles the Number '.' digits
	// from separate tokens
	if p.mode == Lenient && p.isPunct(".") {
		save, savedTok := *p.lx, p.tok
		p.advance()
		if p.tok.k == tNumber && !strings.Contains(p.tok.s, ".") {
			p.lx.Features["number-split-by-space"] = true
			p.tok = token{tNumber, "." + p.tok.s}
		} else {
			*p.lx, p.tok = save, savedTok
		}
	}
	// FilterExpr (('/' | '//') RelativeLocationPath)? | LocationPath
	if p.startsPrimary() {
		// a function call is both a primary expression and (extension) a step;
		// the two readings agree, the filter-expression one is produced
		base := p.primary()
		e := &xast.Expr{K: "path", Base: base}
		for p.isPunct("[") {
			e.BP = append(e.BP, p.predicate())
		}
		if p.isOp("/") || p.isOp("//") {
			ds := p.isOp("//")
			p.advance()
			p.relativePath(e, ds)
		}
		if len(e.BP) == 0 && len(e.Steps) == 0 {
			return base
		}
		return e
	}
	e := &xast.Expr{K: "path"}
	switch {
	case p.isOp("/"):
		e.Abs = true
		p.advance()
		if p.startsStep() {
			p.relativePath(e, false)
		}
	case p.isOp("//"):
		e.Abs = true
		p.advance()
		p.relativePath(e, true)
	default:
		if !p.startsStep() {
			p.fail("expression expected, found %q", p.tok.s)
		}
		p.relativePath(e, false)
	}
	return e
}

func (p *parser) relativePath(e *xast.Expr, firstDS bool) {
	ds := firstDS
	for {
		s := p.step()
		s.DS = ds
		e.Steps = append(e.Steps, s)
		if p.isOp("/") {
			ds = false
		} else if p.isOp("//") {
			ds = true
		} else {
			return
		}
		p.advance()
	}
}

func (p *parser) predicate() *xast.Expr {
	p.expectPunct("[")
	e := p.orExpr()
	p.expectPunct("]")
	return e
}

func (p *parser) step() *xast.Step {
	s := &xast.Step{Axis: "child"}
	switch {
	case p.isPunct("."):
		p.advance()
		return &xast.Step{Axis: "self", Test: xast.Test{K: "node"}}
	case p.isPunct(".."):
		p.advance()
		return &xast.Step{Axis: "parent", Test: xast.Test{K: "node"}}
	case p.tok.k == tFunc:
		// extension: a function call as a step
		return &xast.Step{Call: p.functionCall()}
	case p.isPunct("@"):
		s.Axis = "attribute"
		p.advance()
	case p.tok.k == tAxis:
		s.Axis = p.tok.s
		p.advance()
		p.expectPunct("::")
	}
	switch p.tok.k {
	case tNameTest:
		n := p.tok.s
		switch {
		case n == "*":
			s.Test = xast.Test{K: "any"}
		case strings.HasPrefix(n, "*:"):
			s.Test = xast.Test{K: "localany", L: n[2:]}
		case strings.HasSuffix(n, ":*"):
			s.Test = xast.Test{K: "nsany", P: n[:len(n)-2]}
		case strings.Contains(n, ":"):
			i := strings.Index(n, ":")
			s.Test = xast.Test{K: "name", P: n[:i], L: n[i+1:]}
		default:
			s.Test = xast.Test{K: "name", L: n}
		}
		p.advance()
	case tNodeType:
		nt := p.tok.s
		p.advance()
		p.expectPunct("(")
		if nt == "processing-instruction" {
			if p.tok.k == tLiteral {
				s.Test = xast.Test{K: "pit", L: p.tok.s}
				p.advance()
			} else {
				s.Test = xast.Test{K: "pi"}
			}
		} else {
			s.Test = xast.Test{K: nt}
		}
		p.expectPunct(")")
	default:
		p.fail("node test expected, found %q", p.tok.s)
	}
	for p.isPunct("[") {
		s.Preds = append(s.Preds, p.predicate())
	}
	return s
}

func (p *parser) functionCall() *xast.Expr {
	name := p.tok.s
	p.advance()
	p.expectPunct("(")
	c := xast.Call(name)
	if !p.isPunct(")") {
		for {
			c.A = append(c.A, p.orExpr())
			if p.isPunct(",") {
				p.advance()
				continue
			}
			break
		}
	}
	p.expectPunct(")")
	return c
}

func (p *parser) primary() *xast.Expr {
	switch p.tok.k {
	case tLiteral:
		e := xast.Str(p.tok.s)
		p.advance()
		return e
	case tNumber:
		e := xast.Num(p.tok.s)
		p.advance()
		// Lenient: "1 . 5", "0 .5", "0. 5" - the generated parser assembles a
		// Number from separate tokens
		if p.mode == Lenient && p.tok.k == tNumber {
			if (!strings.Contains(e.S, ".") && strings.HasPrefix(p.tok.s, ".")) || (strings.HasSuffix(e.S, ".") && !strings.Contains(p.tok.s, ".")) {
				e.S += p.tok.s
				p.lx.Features["number-split-by-space"] = true
				p.advance()
				return e
			}
		}
		if p.mode == Lenient && p.isPunct(".") {
			save := *p.lx
			savedTok := p.tok
			p.advance()
			if p.tok.k == tNumber && !strings.Contains(p.tok.s, ".") && !strings.Contains(e.S, ".") {
				e.S += "." + p.tok.s
				p.lx.Features["number-split-by-space"] = true
				p.advance()
				return e
			}
			*p.lx = save
			p.tok = savedTok
		}
		return e
	case tVar:
		e := xast.Var(p.tok.s)
		p.advance()
		return e
	case tFunc:
		return p.functionCall()
	}
	if p.isPunct("(") {
		p.advance()
		e := p.orExpr()
		p.expectPunct(")")
		// parentheses are kept as a filter expression without predicates so
		// that "(a)[1]" and "a[1]" stay different
		return &xast.Expr{K: "path", Base: e}
	}
	p.fail("primary expression expected")
	return nil
}
