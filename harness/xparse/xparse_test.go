package xparse

import (
	"encoding/json"
	"testing"

	"pgregory.net/rapid"

	"verif/xast"
)

// strip removes parenthesis wrappers (a path with only a Base).
func strip(x *xast.Expr) *xast.Expr {
	if x == nil {
		return nil
	}
	if x.K == "path" && x.Base != nil && len(x.BP) == 0 && len(x.Steps) == 0 {
		return strip(x.Base)
	}
	y := *x
	y.A = nil
	for _, a := range x.A {
		y.A = append(y.A, strip(a))
	}
	y.Base = strip(x.Base)
	y.BP = nil
	for _, p := range x.BP {
		y.BP = append(y.BP, strip(p))
	}
	y.Steps = nil
	for _, s := range x.Steps {
		s2 := *s
		if s.DS {
			// '//' is an abbreviation of /descendant-or-self::node()/
			y.Steps = append(y.Steps, &xast.Step{Axis: "descendant-or-self", Test: xast.Test{K: "node"}})
			s2.DS = false
		}
		s2.Call = strip(s.Call)
		s2.Preds = nil
		for _, p := range s.Preds {
			s2.Preds = append(s2.Preds, strip(p))
		}
		y.Steps = append(y.Steps, &s2)
	}
	return &y
}

func canon(x *xast.Expr) string {
	b, _ := json.Marshal(strip(x))
	return string(b)
}

// Every rendering of a generated AST parses back (strictly) to that AST.
func TestRoundTrip(t *testing.T) {
	rapid.Check(t, func(t *rapid.T) {
		g := &xast.G{T: t, Env: xast.GenEnv{ElemNames: []string{"a", "b", "child", "a-b", "text", "a.b", "a1"}, AttrNames: []string{"id", "k"}, Prefixes: []string{"x", "self"},
			NumVars: []string{"n", "x:n"}, StrVars: []string{"s"}, BoolVars: []string{"t"}, NodeVars: []string{"v"}, PITargets: []string{"t"}}}
		e := g.Any(3)
		st := xast.Style{Parens: rapid.Bool().Draw(t, "p"), WS: rapid.Bool().Draw(t, "w"), Abbrev: rapid.Bool().Draw(t, "a")}
		text := xast.Render(e, xast.RapidChooser{T: t}, st)
		for _, mode := range []Mode{Strict, Lenient} {
			got, feats, err := Parse(text, mode)
			if err != nil {
				t.Fatalf("mode %d: %q does not parse: %v", mode, text, err)
			}
			if canon(got) != canon(e) {
				t.Fatalf("mode %d: %q parses to\n%s\nwant\n%s", mode, text, canon(got), canon(e))
			}
			if len(feats) != 0 {
				t.Fatalf("mode %d: %q needed lenient features %v", mode, text, feats)
			}
		}
	})
}

func TestTable(t *testing.T) {
	cases := []struct {
		text            string
		strict, lenient bool
	}{
		{"/", true, true}, {"/*", true, true}, {"/*/a", true, true}, {"/ * 2", false, true}, {"/ div 2", false, true}, {"1 . 5", false, true}, {". 5", false, true},
		{"1.", false, true}, {"_a", false, true}, {"/div", false, true}, {"\"a\\b\"", false, true}, {"'a\\b'", true, true}, {"a : b", false, true}, {"$ v", false, true},
		{"a b", false, false}, {"a[", false, false}, {"1 +", false, false}, {"* * *", true, true}, {"a -1", true, true}, {"a-1", true, true}, {"child::child", true, true},
		{"text()", true, true}, {"text", true, true}, {"div div div", false, true}, {"a div b", true, true}, {"a/b[1]//c/@d", true, true}, {"f(1, 'x')/y", true, true},
		{"(a)[1]", true, true}, {"$x:v", true, true}, {"@*", true, true}, {"*:a", true, true}, {"x:*", true, true}, {"nosuch::a", false, false}, {"a::b", false, false},
		{"1e5", false, false}, {"--1", true, true}, {"a | b | c", true, true}, {"1 | 2", true, true}, {"", false, false}, {"()", false, false}, {"a[]", false, false},
		{"processing-instruction('x')", true, true}, {"processing-instruction(1)", false, false}, {"//", false, false}, {"a//", false, false}, {"/ /", false, false},
		{"#obj/#arr", true, true}, {"é", true, true}, {"a b", false, false}, {"a  ", false, true}, {"!", false, false}, {"a!=b", true, true}, {"a ! = b", false, false},
		{"..a", false, false}, {".. /a", true, true}, {".a", false, false}, {"1.5.2", false, false}, {"1..2", false, false}, {"$v[1]/a", true, true}, {"'a'/b", true, true},
		{"/*/*/*/*/*/*/*/*/*/*/*0", false, true}, {"/*/*/*/*/*/*/*/*/*/*/*/*/*", true, true}, {"/*/*/*/*/*/*/*/*/*/*/*/*/* *", false, true},
	}
	for _, c := range cases {
		_, _, errS := Parse(c.text, Strict)
		_, _, errL := Parse(c.text, Lenient)
		if (errS == nil) != c.strict {
			t.Errorf("strict(%q) = %v (err %v), want %v", c.text, errS == nil, errS, c.strict)
		}
		if (errL == nil) != c.lenient {
			t.Errorf("lenient(%q) = %v (err %v), want %v", c.text, errL == nil, errL, c.lenient)
		}
	}
}
