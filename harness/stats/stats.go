// Package stats collects what a check run actually covered: oracle
// comparisons, distinct non-trivial cases, class histograms, discards,
// known-finding hits and a deterministic sample of cases.
package stats

import (
	"encoding/json"
	"hash/fnv"
	"os"
	"sort"
	"sync"
)

type sample struct {
	H uint64 `json:"h"`
	V any    `json:"v"`
}

type Collector struct {
	mu          sync.Mutex
	Evaluations int64
	Classes     map[string]int64
	Discards    map[string]int64
	Known       map[string]int64
	Notes       map[string]string
	Exhaustive  bool
	nontrivial  map[uint64]struct{}
	samples     []sample
	MaxSamples  int
}

func New() *Collector {
	return &Collector{Classes: map[string]int64{}, Discards: map[string]int64{}, Known: map[string]int64{},
		Notes: map[string]string{}, nontrivial: map[uint64]struct{}{}, MaxSamples: 12}
}

func hash(s string) uint64 {
	h := fnv.New64a()
	h.Write([]byte(s))
	return h.Sum64()
}

// Eval counts n oracle comparisons.
func (c *Collector) Eval(n int) {
	c.mu.Lock()
	c.Evaluations += int64(n)
	c.mu.Unlock()
}

// Class increments a histogram cell.
func (c *Collector) Class(name string) {
	c.mu.Lock()
	c.Classes[name]++
	c.mu.Unlock()
}

func (c *Collector) ClassN(name string, n int) {
	c.mu.Lock()
	c.Classes[name] += int64(n)
	c.mu.Unlock()
}

// Discard counts a generated case that was not judged, with its reason.
func (c *Collector) Discard(reason string) {
	c.mu.Lock()
	c.Discards[reason]++
	c.mu.Unlock()
}

// KnownHit counts a case explained by (or excluded because of) an open finding.
func (c *Collector) KnownHit(id string) {
	c.mu.Lock()
	c.Known[id]++
	c.mu.Unlock()
}

// NonTrivial records a case that is non-trivial by the property's rule;
// distinctness is by the canonical key.
func (c *Collector) NonTrivial(key string) {
	h := hash(key)
	c.mu.Lock()
	c.nontrivial[h] = struct{}{}
	c.mu.Unlock()
}

// Sample offers a case for the evidence samples; the kept subset is the one
// with the smallest key hashes, so it is a deterministic function of the run.
func (c *Collector) Sample(key string, v any) {
	h := hash(key)
	c.mu.Lock()
	defer c.mu.Unlock()
	if len(c.samples) >= c.MaxSamples && h >= c.samples[len(c.samples)-1].H {
		return
	}
	for _, s := range c.samples {
		if s.H == h {
			return
		}
	}
	c.samples = append(c.samples, sample{h, v})
	sort.Slice(c.samples, func(i, j int) bool { return c.samples[i].H < c.samples[j].H })
	if len(c.samples) > c.MaxSamples {
		c.samples = c.samples[:c.MaxSamples]
	}
}

func (c *Collector) Note(k, v string) {
	c.mu.Lock()
	c.Notes[k] = v
	c.mu.Unlock()
}

type File struct {
	Evaluations int64             `json:"evaluations"`
	Classes     map[string]int64  `json:"classes"`
	Discards    map[string]int64  `json:"discards"`
	Known       map[string]int64  `json:"known"`
	Notes       map[string]string `json:"notes"`
	Exhaustive  bool              `json:"exhaustive"`
	NonTrivial  []uint64          `json:"nontrivial"`
	Samples     []sample          `json:"samples"`
}

// Flush writes the shard file that the driver merges.
func (c *Collector) Flush(path string) error {
	c.mu.Lock()
	defer c.mu.Unlock()
	f := File{Evaluations: c.Evaluations, Classes: c.Classes, Discards: c.Discards, Known: c.Known,
		Notes: c.Notes, Exhaustive: c.Exhaustive, Samples: c.samples}
	for h := range c.nontrivial {
		f.NonTrivial = append(f.NonTrivial, h)
	}
	sort.Slice(f.NonTrivial, func(i, j int) bool { return f.NonTrivial[i] < f.NonTrivial[j] })
	b, err := json.Marshal(f)
	if err != nil {
		return err
	}
	return os.WriteFile(path, b, 0o644)
}
