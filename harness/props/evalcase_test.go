package props

import (
	"fmt"
	"math"
	"strconv"
	"strings"
	"sync"
	"sync/atomic"

	"github.com/ChrisTrenkamp/xsel"
	"github.com/ChrisTrenkamp/xsel/store"

	"verif/xast"
	"verif/xmodel"
	"verif/xref"
)

// evalCase is the replayable unit shared by the evaluator properties: a
// document (as parser events), a context node, an expression (AST and the
// exact text given to BuildExpr) and the query's bindings.
type evalCase struct {
	Events []xmodel.Event    `json:"events"`
	Ctx    string            `json:"ctx"`
	Expr   *xast.Expr        `json:"expr"`
	Text   string            `json:"text"`
	NS     map[string]string `json:"ns,omitempty"`
	Vars   []varBinding      `json:"vars,omitempty"`
	Funcs  []funcBinding     `json:"funcs,omitempty"`
	// a second document: node-set variables marked Doc2 hold nodes of it (positions are unique
	// within a document only)
	Events2 []xmodel.Event `json:"events2,omitempty"`
}

// funcBinding is a user function registered with the query: it ignores its
// arguments and returns a constant node-set (in document order).
type funcBinding struct {
	Space string   `json:"ns,omitempty"`
	Local string   `json:"n"`
	Nodes []string `json:"nodes"`
}

type varBinding struct {
	Space string   `json:"ns,omitempty"`
	Local string   `json:"n"`
	T     string   `json:"t"` // num str bool nodes
	Num   string   `json:"num,omitempty"`
	Str   string   `json:"str,omitempty"`
	Bool  bool     `json:"bool,omitempty"`
	Nodes []string `json:"nodes,omitempty"` // node refs, in the order the caller holds them
	Doc2  bool     `json:"doc2,omitempty"`  // the refs are into the case's second document
}

func fmtFloat(f float64) string { return strconv.FormatFloat(f, 'g', -1, 64) }

func parseFloat(s string) float64 {
	f, err := strconv.ParseFloat(s, 64)
	if err != nil && !strings.Contains(err.Error(), "range") {
		return math.NaN()
	}
	return f
}

// exprCache memoises BuildExpr by text.
var exprCache sync.Map
var exprCacheSize int64

func buildExpr(text string) (*xsel.Grammar, error) {
	if v, ok := exprCache.Load(text); ok {
		e := v.(*cachedExpr)
		return e.g, e.err
	}
	g, err := safeBuild(text)
	e := &cachedExpr{err: err}
	if err == nil {
		e.g = &g
	}
	// compiled expressions are large (the whole parse forest): keep the memo small
	if atomic.AddInt64(&exprCacheSize, 1) > 3000 {
		exprCache.Range(func(k, _ any) bool { exprCache.Delete(k); return true })
		atomic.StoreInt64(&exprCacheSize, 0)
	}
	exprCache.Store(text, e)
	return e.g, e.err
}

type cachedExpr struct {
	g   *xsel.Grammar
	err error
}

type panicError struct{ v any }

func (p *panicError) Error() string { return fmt.Sprintf("PANIC: %v", p.v) }

func safeBuild(text string) (g xsel.Grammar, err error) {
	defer func() {
		if r := recover(); r != nil {
			err = &panicError{r}
		}
	}()
	return xsel.BuildExpr(text)
}

func safeExec(c store.Cursor, g *xsel.Grammar, settings ...xsel.ContextApply) (res xsel.Result, err error) {
	defer func() {
		if r := recover(); r != nil {
			err = &panicError{r}
		}
	}()
	return xsel.Exec(c, g, settings...)
}

// prepared is a case after building the document both ways.
type prepared struct {
	doc  *xmodel.Doc
	root store.Cursor
	loc  *xmodel.Loc
}

func prepareDoc(events []xmodel.Event) (*prepared, error) {
	doc := xmodel.Build(events)
	root, err := xmodel.BuildStore(events)
	if err != nil {
		return nil, fmt.Errorf("CreateInMemory failed: %v", err)
	}
	loc, err := xmodel.Locate(doc, root)
	if err != nil {
		return nil, fmt.Errorf("store tree does not mirror the stream (C10): %v", err)
	}
	return &prepared{doc, root, loc}, nil
}

// settings builds the library-side bindings and the reference environment.
func (c *evalCase) settings(p *prepared) ([]xsel.ContextApply, *xref.Env, error) {
	env := &xref.Env{Doc: p.doc, NS: map[string]string{}, Vars: map[xref.Name]xref.Value{}, Funcs: map[xref.Name]xref.UserFunc{}}
	// while the finding is open the reference reproduces exactly "negative
	// ties below -0.5 round away from zero" (pinned by the repository's suite)
	env.RoundHalfAwayNegative = excluded("C06-round-negative-tie")
	var set []xsel.ContextApply
	for k, v := range c.NS {
		env.NS[k] = v
		set = append(set, xsel.WithNS(k, v))
	}
	for _, b := range c.Vars {
		name := xref.Name{Space: b.Space, Local: b.Local}
		switch b.T {
		case "num":
			f := parseFloat(b.Num)
			env.Vars[name] = xref.Number(f)
			set = append(set, xsel.WithVariableNS(b.Space, b.Local, xsel.Number(f)))
		case "str":
			env.Vars[name] = xref.String(b.Str)
			set = append(set, xsel.WithVariableNS(b.Space, b.Local, xsel.String(b.Str)))
		case "bool":
			env.Vars[name] = xref.Bool(b.Bool)
			set = append(set, xsel.WithVariableNS(b.Space, b.Local, xsel.Bool(b.Bool)))
		case "nodes":
			var ms []*xmodel.Node
			ns := xsel.NodeSet{}
			src := p
			if b.Doc2 {
				p2, err := prepareDoc(c.Events2)
				if err != nil {
					return nil, nil, fmt.Errorf("second document: %v", err)
				}
				src = p2
			}
			for _, r := range b.Nodes {
				m := src.doc.Resolve(r)
				if m == nil {
					return nil, nil, fmt.Errorf("variable %s: node %s not in document", b.Local, r)
				}
				ms = append(ms, m)
				ns = append(ns, src.loc.ToCur[m])
			}
			env.Vars[name] = xref.NodeSet(xref.Sort(ms))
			set = append(set, xsel.WithVariableNS(b.Space, b.Local, ns))
		}
	}
	for _, f := range c.Funcs {
		var ms []*xmodel.Node
		ns := xsel.NodeSet{}
		for _, r := range f.Nodes {
			m := p.doc.Resolve(r)
			if m == nil {
				return nil, nil, fmt.Errorf("function %s: node %s not in document", f.Local, r)
			}
			ms = append(ms, m)
		}
		ms = xref.Sort(ms)
		for _, m := range ms {
			ns = append(ns, p.loc.ToCur[m])
		}
		val := xref.NodeSet(ms)
		env.Funcs[xref.Name{Space: f.Space, Local: f.Local}] = func(xref.Ctx, []xref.Value) (xref.Value, error) { return val, nil }
		set = append(set, xsel.WithFunctionNS(f.Space, f.Local, func(xsel.Context, ...xsel.Result) (xsel.Result, error) {
			out := make(xsel.NodeSet, len(ns))
			copy(out, ns)
			return out, nil
		}))
	}
	return set, env, nil
}

// sliceInvariants is C03's validity predicate on a returned node-set: only
// nodes of the queried document, no duplicates, strictly monotone in
// document order (ascending when wantAscending).
func sliceInvariants(ns xsel.NodeSet, loc *xmodel.Loc, wantAscending bool) error {
	seen := map[*xmodel.Node]bool{}
	dir := 0
	var prev *xmodel.Node
	for i, c := range ns {
		if c == nil {
			return fmt.Errorf("result[%d] is a nil cursor", i)
		}
		m, ok := loc.ToNode[c]
		if !ok {
			return fmt.Errorf("result[%d] (%s) is not a node of the queried document", i, xmodel.DescribeCursor(c))
		}
		if seen[m] {
			return fmt.Errorf("result contains %s (%s) twice", m.Ref(), m.Describe())
		}
		seen[m] = true
		if prev != nil {
			d := 1
			if m.Ord < prev.Ord {
				d = -1
			}
			if dir == 0 {
				dir = d
			} else if dir != d {
				return fmt.Errorf("result mixes ascending and descending document order at index %d: %v", i, refsOfCursors(ns, loc))
			}
		}
		prev = m
	}
	if wantAscending && dir < 0 {
		return fmt.Errorf("result is not in ascending document order although the expression uses no reverse axis (or is a union): %v", refsOfCursors(ns, loc))
	}
	return nil
}

func refsOfCursors(ns xsel.NodeSet, loc *xmodel.Loc) []string {
	out := make([]string, len(ns))
	for i, c := range ns {
		if c == nil {
			out[i] = "<nil>"
		} else if m, ok := loc.ToNode[c]; ok {
			out[i] = m.Ref()
		} else {
			out[i] = "?" + xmodel.DescribeCursor(c)
		}
	}
	return out
}

func refsOfNodes(ns []*xmodel.Node) []string {
	out := make([]string, len(ns))
	for i, m := range ns {
		out[i] = m.Ref()
	}
	return out
}

func describeResult(r xsel.Result, loc *xmodel.Loc) string {
	switch v := r.(type) {
	case xsel.NodeSet:
		return fmt.Sprintf("node-set%v", refsOfCursors(v, loc))
	case xsel.Number:
		return "number(" + fmtFloat(float64(v)) + ")"
	case xsel.String:
		return "string(" + strconv.Quote(string(v)) + ")"
	case xsel.Bool:
		return fmt.Sprintf("boolean(%v)", bool(v))
	case nil:
		return "<nil>"
	}
	return fmt.Sprintf("%T", r)
}

// compareResult judges the library's result against the reference value.
func compareResult(impl xsel.Result, ref xref.Value, loc *xmodel.Loc, ascending, callerOrder bool) error {
	switch v := impl.(type) {
	case xsel.NodeSet:
		if ref.T != xref.TNodeSet {
			return fmt.Errorf("result type: got node-set %v, XPath 1.0 gives %s", refsOfCursors(v, loc), ref.Describe())
		}
		if !callerOrder {
			if err := sliceInvariants(v, loc, ascending); err != nil {
				return err
			}
		}
		want := map[*xmodel.Node]bool{}
		for _, m := range ref.Nodes {
			want[m] = true
		}
		for _, c := range v {
			m := loc.ToNode[c]
			if !want[m] {
				return fmt.Errorf("selected %s (%s) which XPath 1.0 does not select; got %v want %v", m.Ref(), m.Describe(), refsOfCursors(v, loc), refsOfNodes(ref.Nodes))
			}
			delete(want, m)
		}
		for m := range want {
			return fmt.Errorf("missed %s (%s) which XPath 1.0 selects; got %v want %v", m.Ref(), m.Describe(), refsOfCursors(v, loc), refsOfNodes(ref.Nodes))
		}
	case xsel.Number:
		if ref.T != xref.TNumber {
			return fmt.Errorf("result type: got %s, XPath 1.0 gives %s", describeResult(impl, loc), ref.Describe())
		}
		f := float64(v)
		if !(f == ref.N || math.IsNaN(f) && math.IsNaN(ref.N)) {
			return fmt.Errorf("got %s, XPath 1.0 gives %s", describeResult(impl, loc), ref.Describe())
		}
	case xsel.String:
		if ref.T != xref.TString {
			return fmt.Errorf("result type: got %s, XPath 1.0 gives %s", describeResult(impl, loc), ref.Describe())
		}
		if string(v) != ref.S {
			return fmt.Errorf("got %s, XPath 1.0 gives %s", describeResult(impl, loc), ref.Describe())
		}
	case xsel.Bool:
		if ref.T != xref.TBool {
			return fmt.Errorf("result type: got %s, XPath 1.0 gives %s", describeResult(impl, loc), ref.Describe())
		}
		if bool(v) != ref.B {
			return fmt.Errorf("got %s, XPath 1.0 gives %s", describeResult(impl, loc), ref.Describe())
		}
	default:
		return fmt.Errorf("Exec returned %T with a nil error", impl)
	}
	return nil
}

// resultMethods checks the conversions the returned Result offers to the
// caller (String/Number/Bool) against the XPath 1.0 conversions of the value.
func resultMethods(impl xsel.Result, ref xref.Value) (err error) {
	defer func() {
		if r := recover(); r != nil {
			err = fmt.Errorf("a conversion method of the result panicked: %v", r)
		}
	}()
	if got, want := impl.String(), ref.ToString(); got != want {
		return fmt.Errorf("Result.String() = %q, string() of the value is %q", got, want)
	}
	got, want := impl.Number(), ref.ToNumber()
	if !(got == want || math.IsNaN(got) && math.IsNaN(want)) {
		return fmt.Errorf("Result.Number() = %v, number() of the value is %v", got, want)
	}
	if got, want := impl.Bool(), ref.ToBool(); got != want {
		return fmt.Errorf("Result.Bool() = %v, boolean() of the value is %v", got, want)
	}
	return nil
}

// passesCallerOrder: the expression's value is a node-set handed in by the
// caller (a variable, possibly parenthesised); "a variable evaluates to
// exactly the bound value" (C11), so its order is the caller's, not the
// query's.
func passesCallerOrder(x *xast.Expr) bool {
	switch {
	case x.K == "var":
		return true
	case x.K == "call" && strings.Contains(x.S, ":"):
		return true // user function: the value is the function's
	case x.K == "path" && x.Base != nil && len(x.BP) == 0 && len(x.Steps) == 0:
		return passesCallerOrder(x.Base)
	}
	return false
}

// observations of the most recent reference evaluation (single-threaded
// test processes), for the properties' non-triviality rules
var lastObs xref.Obs
var lastRef xref.Value
var lastRefErr error

type outcome int

const (
	judged outcome = iota
	discarded
)

// wantsAscending: does C03 require ascending order for this expression?
func wantsAscending(x *xast.Expr) bool {
	return x.K == "|" || !xast.UsesReverseAxis(x)
}

// evalAndCompare runs the case through the library and the reference.
// A discarded case returns (discarded, reason, nil).
func evalAndCompare(c *evalCase) (outcome, string, error) {
	p, err := prepareDoc(c.Events)
	if err != nil {
		return discarded, "document-not-mirrored", nil
	}
	return evalPrepared(c, p)
}

func evalPrepared(c *evalCase, p *prepared) (outcome, string, error) {
	ctxNode := p.doc.Resolve(c.Ctx)
	if ctxNode == nil {
		return judged, "", fmt.Errorf("bad case: context node %s not in document", c.Ctx)
	}
	set, env, err := c.settings(p)
	if err != nil {
		return judged, "", err
	}
	if excluded("C06-round-negative-tie") {
		env.RoundHalfAwayNegative = true
	}
	ref, refErr := env.Eval(c.Expr, xref.Ctx{Node: ctxNode, Pos: 1, Size: 1})
	lastObs, lastRef, lastRefErr = env.Obs, ref, refErr
	if refErr == xref.ErrOutOfScope {
		return discarded, "out-of-scope", nil
	}
	if env.Unpinned != "" {
		return discarded, env.Unpinned, nil
	}
	if excluded("C08-slash-star-ambiguity") && slashStarAmbiguous(c.Text) {
		st.KnownHit("C08-slash-star-ambiguity")
		return discarded, "known-finding:C08-slash-star-ambiguity", nil
	}
	if len(c.Text)%5 == 0 {
		// a failed compilation just before: one call's failure must not change the next call
		safeBuild([]string{"1 +", "a[", "(", "f(1,", "'x"}[len(c.Text)/5%5])
	}
	g, berr := buildExpr(c.Text)
	if berr != nil {
		return judged, "", fmt.Errorf("BuildExpr(%q) rejected a valid expression: %v", c.Text, firstLine(berr.Error()))
	}
	if len(c.Text)%11 == 5 {
		// another query just before, with bindings of its own: they are that query's, not the process's
		pollute(p.root)
	}
	var owned *xsel.ContextSettings
	var ownedSizes [3]int
	if len(c.Text)%4 == 1 {
		// the caller's own maps installed by a ContextApply of its own (as the command does), instead of the With* helpers
		owned = &xsel.ContextSettings{NamespaceDecls: map[string]string{}, Variables: map[xsel.XmlName]xsel.Result{}, FunctionLibrary: map[xsel.XmlName]xsel.Function{}}
		for _, a := range set {
			a(owned)
		}
		ownedSizes = [3]int{len(owned.NamespaceDecls), len(owned.Variables), len(owned.FunctionLibrary)}
		set = []xsel.ContextApply{func(cs *xsel.ContextSettings) {
			cs.NamespaceDecls, cs.Variables, cs.FunctionLibrary = owned.NamespaceDecls, owned.Variables, owned.FunctionLibrary
		}}
	}
	startCur := p.loc.ToCur[ctxNode]
	viewed := len(c.Text)%7 == 3 && len(c.Funcs) == 0 && len(p.doc.All) <= 60
	for _, b := range c.Vars {
		if b.T == "nodes" && len(b.Nodes) > 0 {
			viewed = false // node-set variables hold the store's cursors: one document, one kind of cursor
		}
	}
	if viewed {
		// through a user-written Cursor (fresh objects per call / an uncomparable value type / huge positions)
		startCur = viewOf(startCur, len(c.Text)/7)
	}
	impl, implErr := safeExec(startCur, g, set...)
	if pe, ok := implErr.(*panicError); ok {
		return judged, "", fmt.Errorf("Exec(%q) panicked: %v", c.Text, pe.v)
	}
	if owned != nil && ownedSizes != [3]int{len(owned.NamespaceDecls), len(owned.Variables), len(owned.FunctionLibrary)} {
		return judged, "", fmt.Errorf("Exec(%q) changed the caller's binding maps: %d namespaces, %d variables, %d functions before, %d, %d, %d after", c.Text,
			ownedSizes[0], ownedSizes[1], ownedSizes[2], len(owned.NamespaceDecls), len(owned.Variables), len(owned.FunctionLibrary))
	}
	if viewed {
		if implErr != nil && strings.Contains(implErr.Error(), "xpath query panic") {
			return judged, "", fmt.Errorf("Exec(%q) from a user-written Cursor (%T) failed: %v", c.Text, startCur, implErr)
		}
		impl = unviewResult(impl)
	}
	switch {
	case refErr != nil && implErr != nil:
		return judged, "", nil
	case refErr != nil:
		return judged, "", fmt.Errorf("Exec(%q) returned %s but XPath 1.0 requires an error (%v)", c.Text, describeResult(impl, p.loc), refErr)
	case implErr != nil:
		return judged, "", fmt.Errorf("Exec(%q) failed: %v; XPath 1.0 gives %s", c.Text, implErr, ref.Describe())
	}
	if impl == nil {
		return judged, "", fmt.Errorf("Exec(%q) returned a nil result and a nil error", c.Text)
	}
	if err := compareResult(impl, ref, p.loc, wantsAscending(c.Expr), passesCallerOrder(c.Expr)); err != nil {
		return judged, "", fmt.Errorf("Exec(%q) from %s (%s): %v", c.Text, ctxNode.Ref(), ctxNode.Describe(), err)
	}
	if err := resultMethods(impl, ref); err != nil {
		return judged, "", fmt.Errorf("Exec(%q) from %s = %s: %v", c.Text, ctxNode.Ref(), ref.Describe(), err)
	}
	if len(c.Text)%3 == 0 {
		// the ExecAs* helpers are Exec followed by the XPath conversion of the result
		if err := helperEntryPoints(p.loc.ToCur[ctxNode], g, set, impl, ref); err != nil {
			return judged, "", fmt.Errorf("%q from %s = %s: %v", c.Text, ctxNode.Ref(), ref.Describe(), err)
		}
	}
	return judged, "", nil
}

func helperEntryPoints(cur store.Cursor, g *xsel.Grammar, set []xsel.ContextApply, impl xsel.Result, ref xref.Value) (err error) {
	defer func() {
		if r := recover(); r != nil {
			err = fmt.Errorf("an ExecAs* helper panicked: %v", r)
		}
	}()
	s, serr := xsel.ExecAsString(cur, g, set...)
	if serr != nil {
		return fmt.Errorf("ExecAsString failed (%v) although Exec succeeds", serr)
	}
	if want := ref.ToString(); s != want {
		return fmt.Errorf("ExecAsString = %q, string() of the value is %q", s, want)
	}
	f, ferr := xsel.ExecAsNumber(cur, g, set...)
	if ferr != nil {
		return fmt.Errorf("ExecAsNumber failed (%v) although Exec succeeds", ferr)
	}
	if want := ref.ToNumber(); !(f == want || math.IsNaN(f) && math.IsNaN(want)) {
		return fmt.Errorf("ExecAsNumber = %v, number() of the value is %v", f, want)
	}
	ns, nerr := xsel.ExecAsNodeset(cur, g, set...)
	implNS, isNS := impl.(xsel.NodeSet)
	switch {
	case isNS && nerr != nil:
		return fmt.Errorf("ExecAsNodeset failed (%v) although the result is a node-set", nerr)
	case !isNS && nerr == nil:
		return fmt.Errorf("ExecAsNodeset returned %d nodes and no error although the result is not a node-set", len(ns))
	case isNS:
		if len(ns) != len(implNS) {
			return fmt.Errorf("ExecAsNodeset returned %d nodes, Exec %d", len(ns), len(implNS))
		}
		for i := range ns {
			if ns[i] != implNS[i] {
				return fmt.Errorf("ExecAsNodeset and Exec differ at index %d", i)
			}
		}
	}
	return nil
}

func checkEvalCase(c *evalCase) error {
	_, _, err := evalAndCompare(c)
	return err
}

// docNames collects name material from a document for the generators.
func docNames(d *xmodel.Doc) (elems, attrs, targets []string) {
	se, sa, sp := map[string]bool{}, map[string]bool{}, map[string]bool{}
	for _, n := range d.All {
		switch n.Kind {
		case xmodel.Elem:
			if !se[n.Local] {
				se[n.Local] = true
				elems = append(elems, n.Local)
			}
		case xmodel.Attr:
			if !sa[n.Local] {
				sa[n.Local] = true
				attrs = append(attrs, n.Local)
			}
		case xmodel.PI:
			if !sp[n.Local] {
				sp[n.Local] = true
				targets = append(targets, n.Local)
			}
		}
	}
	return
}

// queryable filters out names the generated parser is known to reject as
// name tests (see known finding C08-grammar); they are excluded by
// construction from the evaluator properties.
func queryable(names []string) []string {
	var out []string
	for _, n := range names {
		switch n {
		case "and", "or", "div", "mod":
			continue
		}
		if strings.HasPrefix(n, "_") {
			continue
		}
		out = append(out, n)
	}
	return out
}

var pollutingQuery = func() *xsel.Grammar { g := xsel.MustBuildExpr("count(/) + $nope"); return &g }()

// pollute runs a query that binds a user function under the name of every
// core function, a prefix and a variable - for that query only.
func pollute(root store.Cursor) {
	garbage := func(xsel.Context, ...xsel.Result) (xsel.Result, error) { return xsel.String("leaked from another query"), nil }
	set := []xsel.ContextApply{xsel.WithNS("zz", "urn:zz"), xsel.WithNS("p", "urn:leak"), xsel.WithNS("q", "urn:leak"), xsel.WithVariable("nope", xsel.Number(41)), xsel.WithVariableNS("urn:x", "nope", xsel.Number(42)),
		xsel.WithFunction("nope", garbage), xsel.WithFunctionNS("urn:x", "nope", garbage), xsel.WithFunctionNS("urn:zz", "f", garbage)}
	for _, name := range []string{"last", "position", "count", "local-name", "namespace-uri", "name", "string", "concat", "starts-with", "contains", "substring-before", "substring-after", "substring",
		"string-length", "normalize-space", "translate", "boolean", "not", "true", "false", "lang", "number", "sum", "floor", "ceiling", "round"} {
		set = append(set, xsel.WithFunction(name, garbage))
	}
	defer func() { recover() }()
	xsel.Exec(root, pollutingQuery, set...)
}
