package props

import (
	"fmt"
	"math"
	"strings"
	"testing"

	"pgregory.net/rapid"

	"verif/xast"
	"verif/xmodel"
)

// C06 - arithmetic and numeric functions are IEEE 754 double arithmetic.

var c06Arith = reg("C06", "c06-arith", checkC06)

// checkC06 is the differential check plus: none of these operations may
// raise an error for any numeric operand.
func checkC06(c *evalCase) error {
	out, _, err := evalAndCompare(c)
	if out == discarded {
		return nil
	}
	return err
}

var c06Texts = []string{"1.5", "2.5", "-1.5", "0.5", "-0.5", "3", "10", "abc", "", " 4 ", "1e2", "-0", "0.1", "0.2", "7.25", "-2.75", "1000000", "NaN",
	// numerals beyond the double range convert to +-Infinity, below it to zero
	"1" + strings.Repeat("0", 309), "-1" + strings.Repeat("0", 309), "9" + strings.Repeat("9", 320) + ".5", "0." + strings.Repeat("0", 400) + "1",
	// only space, tab, CR and LF are white space: these are not numerals
	"9007199254740993.00000000000000000000000000000000000000000001", "0.00000000000000000000001", "4503599627370496.5000000000000000000000000000000000000000001",
	"\u00a05", "5\u00a0", "\u20031", "\v2", "3\f", "\u00852", "\u30004", "\ufeff6",
	// what other languages' number syntaxes accept and XPath does not
	"1_000", "1_0.5", "1,000", "1'000", "0b11", "0o17", "1f", "1d", "1L", "٣", "１２"}

// splitText gives the text of an element as one text node or - the
// string-value is the concatenation of ALL text descendants - as two text
// nodes around a comment or a processing instruction.
func splitText(t *rapid.T, s string) []xmodel.Event {
	if s == "" {
		return nil
	}
	rs := []rune(s)
	if len(rs) < 2 || rapid.IntRange(0, 3).Draw(t, "splitText") != 0 {
		return []xmodel.Event{{K: "T", Value: s}}
	}
	k := rapid.IntRange(1, len(rs)-1).Draw(t, "splitAt")
	mid := xmodel.Event{K: "C", Value: "9"}
	if rapid.Bool().Draw(t, "splitByPI") {
		mid = xmodel.Event{K: "P", Local: "t", Value: "7"}
	}
	return []xmodel.Event{{K: "T", Value: string(rs[:k])}, mid, {K: "T", Value: string(rs[k:])}}
}

func TestC06(t *testing.T) {
	runWitnesses(t, "C06")
	ops := []string{"+", "-", "*", "div", "mod"}
	runProp(t, "arith", 480000, 6000000, func(t *rapid.T) {
		a, b := genFloat(t, "a"), genFloat(t, "b")
		c := &evalCase{Events: []xmodel.Event{{K: "S", Local: "r"}, {K: "E"}}, Ctx: "/",
			Vars: []varBinding{{Local: "a", T: "num", Num: fmtFloat(a)}, {Local: "b", T: "num", Num: fmtFloat(b)}}}
		kind := rapid.IntRange(0, 9).Draw(t, "kind")
		var e *xast.Expr
		cls := ""
		switch {
		case kind <= 4:
			op := ops[rapid.IntRange(0, 4).Draw(t, "op")]
			e = xast.Bin(op, xast.Var("a"), xast.Var("b"))
			cls = op + " " + numClass(a) + "," + numClass(b)
		case kind == 5:
			e = xast.Neg(xast.Var("a"))
			if rapid.Bool().Draw(t, "doubleNeg") {
				e = xast.Neg(e)
			}
			cls = "neg " + numClass(a)
		case kind <= 8:
			fn := []string{"floor", "ceiling", "round"}[rapid.IntRange(0, 2).Draw(t, "fn")]
			e = xast.Call(fn, xast.Var("a"))
			cls = fn + " " + numClass(a)
			if fn == "round" && a-math.Floor(a) == 0.5 {
				cls = "round tie " + map[bool]string{true: "negative", false: "positive"}[a < 0]
			}
		default:
			// compound: ($a op $b) op2 $a, exercising left associativity too
			e = xast.Bin(ops[rapid.IntRange(0, 4).Draw(t, "op2")], xast.Bin(ops[rapid.IntRange(0, 4).Draw(t, "op1")], xast.Var("a"), xast.Var("b")), xast.Var("a"))
			cls = "compound"
		}
		c.Expr = e
		c.Text = xast.Render(e, xast.RapidChooser{T: t}, xast.Style{WS: rapid.Bool().Draw(t, "ws")})
		if excluded("C06-round-negative-tie") && strings.HasPrefix(cls, "round tie negative") && a < -0.5 {
			st.KnownHit("C06-round-negative-tie")
		}
		st.Eval(1)
		st.Class(strings.SplitN(cls, " ", 2)[0])
		if !(numClass(a) == "integer" && numClass(b) == "integer") || strings.HasPrefix(cls, "round tie") {
			st.NonTrivial(cls + "|" + c.Vars[0].Num + "|" + c.Vars[1].Num)
			st.Sample(cls, map[string]any{"expr": c.Text, "a": c.Vars[0].Num, "b": c.Vars[1].Num})
		}
		c06Arith.run(t, c)
	})
	// literal forms: the operands are written into the expression
	runProp(t, "literals", 48000, 300000, func(t *rapid.T) {
		lits := []string{"0", "1", "2", "5", "2.5", "0.5", ".5", "3", "10", "0.1", "7.25", "1000000000000000000000", "0.000001",
			// beyond the double range: the nearest IEEE value is an infinity (or zero)
			"1" + strings.Repeat("0", 320), "17976931348623157" + strings.Repeat("0", 292) + "9", "0." + strings.Repeat("0", 330) + "1", strings.Repeat("9", 400) + ".9"}
		lit := func(label string) *xast.Expr {
			e := xast.Num(lits[rapid.IntRange(0, len(lits)-1).Draw(t, label)])
			if rapid.IntRange(0, 3).Draw(t, label+"Neg") == 0 {
				return xast.Neg(e)
			}
			return e
		}
		e := xast.Bin(ops[rapid.IntRange(0, 4).Draw(t, "op")], lit("l"), lit("r"))
		if rapid.IntRange(0, 3).Draw(t, "third") == 0 {
			e = xast.Bin(ops[rapid.IntRange(0, 4).Draw(t, "op2")], e, lit("t"))
		}
		c := &evalCase{Events: []xmodel.Event{{K: "S", Local: "r"}, {K: "E"}}, Ctx: "/", Expr: e,
			Text: xast.Render(e, xast.RapidChooser{T: t}, drawStyle(t))}
		st.Eval(1)
		st.Class("literal")
		st.NonTrivial("lit|" + xast.RenderMinimal(e))
		st.Sample("lit|"+c.Text, map[string]any{"expr": c.Text})
		c06Arith.run(t, c)
	})
	// node-set operands: number() of a node-set is number() of its first node in
	// DOCUMENT order, however the set was produced (reverse axis, caller-ordered variable)
	runProp(t, "operands", 40000, 300000, func(t *rapid.T) {
		n := rapid.IntRange(2, 6).Draw(t, "nodes")
		ev := []xmodel.Event{{K: "S", Local: "r"}}
		var refs []string
		for i := 0; i < n; i++ {
			s := c06Texts[rapid.IntRange(0, len(c06Texts)-1).Draw(t, "text")]
			ev = append(ev, xmodel.Event{K: "S", Local: "a"})
			ev = append(ev, splitText(t, s)...)
			ev = append(ev, xmodel.Event{K: "E"})
			refs = append(refs, fmt.Sprintf("/0/%d", i))
		}
		ev = append(ev, xmodel.Event{K: "E"})
		shuffled := rapid.Permutation(refs).Draw(t, "callerOrder")
		c := &evalCase{Events: ev, Ctx: "/", Vars: []varBinding{{Local: "v", T: "nodes", Nodes: shuffled[:rapid.IntRange(1, n).Draw(t, "varSize")]},
			{Local: "b", T: "num", Num: fmtFloat(genFloat(t, "b"))}}}
		c.Vars = append(c.Vars, varBinding{Local: "t", T: "bool", Bool: rapid.Bool().Draw(t, "boolVar")},
			varBinding{Local: "s", T: "str", Str: c06Texts[rapid.IntRange(0, len(c06Texts)-1).Draw(t, "strVar")]})
		kinds := []string{"reverse-axis path", "caller-ordered variable", "forward path", "number", "ancestor path", "boolean function", "boolean variable", "comparison", "string variable", "string literal"}
		operand := func(label string) (*xast.Expr, string) {
			k := rapid.IntRange(0, len(kinds)-1).Draw(t, label)
			switch k {
			case 0:
				return xast.Path(true, xast.S("child", xast.Name("", "r")), xast.S("child", xast.Name("", "a"), xast.Call("last")), xast.S("preceding-sibling", xast.Name("", "a"))), kinds[k]
			case 1:
				return xast.Var("v"), kinds[k]
			case 2:
				return xast.Path(true, xast.S("child", xast.Name("", "r")), xast.S("child", xast.Name("", "a"))), kinds[k]
			case 3:
				return xast.Var("b"), kinds[k]
			case 5:
				return xast.Call([]string{"true", "false"}[rapid.IntRange(0, 1).Draw(t, label+"Fn")]), kinds[k]
			case 6:
				return xast.Var("t"), kinds[k]
			case 7:
				return xast.Bin("=", xast.Num("1"), xast.Num([]string{"1", "2"}[rapid.IntRange(0, 1).Draw(t, label+"Cmp")])), kinds[k]
			case 8:
				return xast.Var("s"), kinds[k]
			case 9:
				return xast.Str([]string{"2", " 3 ", "x", "", "1.5", "-1"}[rapid.IntRange(0, 5).Draw(t, label+"Lit")]), kinds[k]
			}
			return xast.Path(true, xast.DS("child", xast.NodeT()), xast.S("ancestor-or-self", xast.Name("", "a"))), kinds[k]
		}
		l, lk := operand("left")
		var e *xast.Expr
		cls := ""
		if u := rapid.IntRange(0, 11).Draw(t, "unary"); u <= 1 {
			e, cls = xast.Neg(l), "neg "+lk
			// runs of unary minus: every one of them converts with number() (--'abc' is NaN, not 'abc'), seen
			// through string(), boolean() and the result type
			for k := rapid.IntRange(0, 3).Draw(t, "negRun"); k > 0; k-- {
				e, cls = xast.Neg(e), "neg "+cls
			}
			switch rapid.IntRange(0, 3).Draw(t, "negSeenAs") {
			case 0:
				e = xast.Call("string", e)
			case 1:
				e = xast.Call("boolean", e)
			}
		} else {
			r, rk := operand("right")
			op := ops[rapid.IntRange(0, 4).Draw(t, "op")]
			e, cls = xast.Bin(op, l, r), lk+" "+op+" "+rk
		}
		c.Expr = e
		c.Text = xast.Render(e, xast.RapidChooser{T: t}, xast.Style{WS: rapid.Bool().Draw(t, "ws")})
		st.Eval(1)
		st.Class("node-set operand")
		if strings.Contains(cls, "reverse") || strings.Contains(cls, "caller") || strings.Contains(cls, "ancestor") || strings.Contains(cls, "boolean") || strings.Contains(cls, "comparison") || strings.Contains(cls, "string") {
			st.NonTrivial(cls + "|" + fmt.Sprint(ev, c.Vars[0].Nodes, c.Vars[1].Num))
			st.Sample(cls+c.Text, map[string]any{"expr": c.Text, "events": eventStrings(ev), "v": c.Vars[0].Nodes, "b": c.Vars[1].Num})
		}
		c06Arith.run(t, c)
	})
	// sum() and count() over nodes with numeric and non-numeric text
	runProp(t, "sum", 64000, 500000, func(t *rapid.T) {
		n := rapid.IntRange(0, 12).Draw(t, "nodes")
		if rapid.IntRange(0, 399).Draw(t, "manyNodes") == 0 {
			// every node counts, also the 1025th
			n = []int{255, 257, 1023, 1025, 1026, 1027, 2049}[rapid.IntRange(0, 6).Draw(t, "manyNodesN")]
		}
		ev := []xmodel.Event{{K: "S", Local: "r"}}
		var texts []string
		exact := true
		for i := 0; i < n; i++ {
			s := c06Texts[rapid.IntRange(0, len(c06Texts)-1).Draw(t, "text")]
			if n > 100 {
				s = "1" // (exact, so that the order of addition does not matter) ...
				if i >= n-3 {
					s = []string{"7", "abc", "1000"}[(n-1-i+n)%3] // ... and the last ones decide
				}
			}
			texts = append(texts, s)
			if s == "0.1" || s == "0.2" || len(s) > 20 && len(s) < 300 {
				exact = false // (the out-of-range numerals are +-Infinity or 0: exact)
			}
			ev = append(ev, xmodel.Event{K: "S", Local: "a"}, xmodel.Event{K: "A", Local: "v", Value: s})
			ev = append(ev, splitText(t, s)...)
			ev = append(ev, xmodel.Event{K: "E"})
		}
		ev = append(ev, xmodel.Event{K: "E"})
		sel := xast.Path(true, xast.S("child", xast.Name("", "r")), xast.S("child", xast.Name("", "a")))
		if rapid.Bool().Draw(t, "attrs") {
			sel.Steps = append(sel.Steps, xast.S("attribute", xast.Name("", "v")))
		}
		if rapid.IntRange(0, 3).Draw(t, "reverse") == 0 {
			// the same nodes delivered by a reverse axis
			sel = xast.Path(true, xast.S("child", xast.Name("", "r")), xast.S("child", xast.NodeT(), xast.Call("last")), xast.S("preceding-sibling", xast.Name("", "a")))
			if n > 0 {
				texts = texts[:n-1]
			}
		}
		fn := []string{"sum", "sum", "count"}[rapid.IntRange(0, 2).Draw(t, "fn")]
		e := xast.Call(fn, sel)
		c := &evalCase{Events: ev, Ctx: "/", Expr: e, Text: xast.Render(e, xast.RapidChooser{T: t}, drawStyle(t))}
		if fn == "sum" && !exact && len(texts) >= 2 {
			// float sums of inexact terms depend on the order of addition;
			// the property does not fix it: only exactly representable terms
			// are compared exactly
			st.Discard("sum-order-dependent")
			return
		}
		st.Eval(1)
		st.Class(fn)
		frac := false
		for _, s := range texts {
			if strings.ContainsAny(s, ".") || s == "abc" || s == "" || strings.Contains(s, " ") {
				frac = true
			}
		}
		if frac {
			st.NonTrivial(fn + fmt.Sprint(texts))
			st.Sample(fn+fmt.Sprint(texts), map[string]any{"expr": c.Text, "texts": texts})
		}
		c06Arith.run(t, c)
	})
}
