package props

import (
	"encoding/xml"
	"fmt"
	"io"
	"math"
	"strings"

	"github.com/ChrisTrenkamp/xsel"

	"verif/xmodel"
)

// expectCase is a hand-written regression / witness case: a document, a
// context node, expression text and the value XPath 1.0 defines for it.
// It needs no AST and no reference evaluator.
type expectCase struct {
	XML    string            `json:"xml,omitempty"`    // parsed by the harness's own tokenizer, not by xsel
	Events []xmodel.Event    `json:"events,omitempty"` // alternative to XML
	Ctx    string            `json:"ctx,omitempty"`
	Expr   string            `json:"expr"`
	NS     map[string]string `json:"ns,omitempty"`
	Vars   []varBinding      `json:"vars,omitempty"`
	Want   expectWant        `json:"want"`
}

type expectWant struct {
	T     string   `json:"t"` // num str bool nodes error (BuildExpr or Exec fails) reject (BuildExpr fails)
	Num   string   `json:"num,omitempty"`
	Str   string   `json:"str,omitempty"`
	Bool  bool     `json:"bool,omitempty"`
	Nodes []string `json:"nodes,omitempty"` // refs, as a set; order must be monotone
	Asc   bool     `json:"asc,omitempty"`   // the node-set must come back in ascending document order
}

// xmlToEvents tokenises XML with the harness's own encoding/xml decoder
// (adjacent character data merged, xml binding on every element, xmlns
// attributes turned into namespace events).
func xmlToEvents(text string) ([]xmodel.Event, error) {
	d := xml.NewDecoder(strings.NewReader(text))
	var out []xmodel.Event
	for {
		tok, err := d.Token()
		if err == io.EOF {
			return out, nil
		}
		if err != nil {
			return nil, err
		}
		switch v := tok.(type) {
		case xml.StartElement:
			out = append(out, xmodel.Event{K: "S", Space: v.Name.Space, Local: v.Name.Local})
			out = append(out, xmodel.Event{K: "N", Local: "xml", Value: xmodel.XMLNS})
			for _, a := range v.Attr {
				if a.Name.Space == "xmlns" {
					out = append(out, xmodel.Event{K: "N", Local: a.Name.Local, Value: a.Value})
				} else if a.Name.Space == "" && a.Name.Local == "xmlns" {
					out = append(out, xmodel.Event{K: "N", Local: "", Value: a.Value})
				}
			}
			for _, a := range v.Attr {
				if a.Name.Space == "xmlns" || (a.Name.Space == "" && a.Name.Local == "xmlns") {
					continue
				}
				out = append(out, xmodel.Event{K: "A", Space: a.Name.Space, Local: a.Name.Local, Value: a.Value})
			}
		case xml.EndElement:
			out = append(out, xmodel.Event{K: "E"})
		case xml.CharData:
			if n := len(out); n > 0 && out[n-1].K == "T" {
				out[n-1].Value += string(v)
			} else {
				out = append(out, xmodel.Event{K: "T", Value: string(v)})
			}
		case xml.Comment:
			out = append(out, xmodel.Event{K: "C", Value: string(v)})
		case xml.ProcInst:
			if v.Target != "xml" {
				out = append(out, xmodel.Event{K: "P", Local: v.Target, Value: string(v.Inst)})
			}
		}
	}
}

func checkExpect(c *expectCase) error {
	ev := c.Events
	if c.XML != "" {
		var err error
		ev, err = xmlToEvents(c.XML)
		if err != nil {
			return fmt.Errorf("bad case: XML does not tokenise: %v", err)
		}
	}
	p, err := prepareDoc(ev)
	if err != nil {
		return err
	}
	ctx := c.Ctx
	if ctx == "" {
		ctx = "/"
	}
	ctxNode := p.doc.Resolve(ctx)
	if ctxNode == nil {
		return fmt.Errorf("bad case: no node %s", ctx)
	}
	ec := &evalCase{Events: ev, Ctx: ctx, NS: c.NS, Vars: c.Vars}
	set, _, err := ec.settings(p)
	if err != nil {
		return err
	}
	g, berr := safeBuild(c.Expr)
	if c.Want.T == "reject" {
		if _, ok := berr.(*panicError); ok {
			return fmt.Errorf("BuildExpr(%q) panicked", c.Expr)
		}
		if berr == nil {
			return fmt.Errorf("BuildExpr(%q) accepted a string that is not an XPath 1.0 expression", c.Expr)
		}
		return nil
	}
	if c.Want.T == "builds" {
		if berr != nil {
			return fmt.Errorf("BuildExpr(%q) rejected a syntactically valid expression: %v", c.Expr, firstLine(berr.Error()))
		}
		return nil
	}
	if berr != nil {
		if c.Want.T == "error" {
			return nil
		}
		return fmt.Errorf("BuildExpr(%q): %v", c.Expr, firstLine(berr.Error()))
	}
	res, xerr := safeExec(p.loc.ToCur[ctxNode], &g, set...)
	if pe, ok := xerr.(*panicError); ok {
		return fmt.Errorf("Exec(%q) panicked: %v", c.Expr, pe.v)
	}
	if c.Want.T == "error" {
		if xerr == nil {
			return fmt.Errorf("Exec(%q) returned %s, an error is required", c.Expr, describeResult(res, p.loc))
		}
		return nil
	}
	if xerr != nil {
		return fmt.Errorf("Exec(%q) failed: %v", c.Expr, xerr)
	}
	bad := func() error {
		return fmt.Errorf("Exec(%q) = %s, XPath 1.0 gives %s", c.Expr, describeResult(res, p.loc), c.Want.describe())
	}
	switch v := res.(type) {
	case xsel.Number:
		w := parseFloat(c.Want.Num)
		if c.Want.T != "num" || !(float64(v) == w || math.IsNaN(float64(v)) && math.IsNaN(w)) {
			return bad()
		}
	case xsel.String:
		if c.Want.T != "str" || string(v) != c.Want.Str {
			return bad()
		}
	case xsel.Bool:
		if c.Want.T != "bool" || bool(v) != c.Want.Bool {
			return bad()
		}
	case xsel.NodeSet:
		if c.Want.T != "nodes" {
			return bad()
		}
		if err := sliceInvariants(v, p.loc, c.Want.Asc); err != nil {
			return fmt.Errorf("Exec(%q): %v", c.Expr, err)
		}
		want := map[string]bool{}
		for _, r := range c.Want.Nodes {
			want[r] = true
		}
		if len(v) != len(want) {
			return bad()
		}
		for _, cur := range v {
			if !want[p.loc.ToNode[cur].Ref()] {
				return bad()
			}
		}
	default:
		return bad()
	}
	return nil
}

func (w expectWant) describe() string {
	switch w.T {
	case "num":
		return "number(" + w.Num + ")"
	case "str":
		return fmt.Sprintf("string(%q)", w.Str)
	case "bool":
		return fmt.Sprintf("boolean(%v)", w.Bool)
	case "nodes":
		return fmt.Sprintf("node-set%v", w.Nodes)
	}
	return w.T
}

var _ = reg("*", "expect", checkExpect)
