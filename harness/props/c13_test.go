package props

import (
	"fmt"
	"math"
	"reflect"
	"strings"
	"testing"

	"github.com/ChrisTrenkamp/xsel"
	"github.com/ChrisTrenkamp/xsel/store"
	"pgregory.net/rapid"

	"verif/xast"
	"verif/xmodel"
)

// C13 - queries are pure and deterministic: no input is mutated, repeats agree.

type c13Op struct {
	Op    string `json:"op"`               // exec reexec subslice rebuild unmarshal scribble typed
	Doc   int    `json:"doc,omitempty"`    // exec: which document (0: Events, 1: Events2); held node-sets of the other document count as "none"
	H     int    `json:"h,omitempty"`      // exec: 1+index of the held slice that h:held() returns (0: the slice bound as $v)
	Mode  int    `json:"mode,omitempty"`   // scribble: how the caller edits its own slice; typed: which target type
	Expr  int    `json:"expr,omitempty"`   // index into Exprs
	Node  string `json:"node,omitempty"`   // context node ref
	V     int    `json:"v,omitempty"`      // held node-set bound to $v (-1: none)
	W     int    `json:"w,omitempty"`      // held node-set bound to $w (-1: none; may equal V: the same slice twice)
	Hold  bool   `json:"hold,omitempty"`   // keep the result (if a node-set) as a caller-held slice
	Alt   bool   `json:"alt,omitempty"`    // use the second namespace map (x and y swapped) and the second values of $n, $s
	BindK bool   `json:"kbound,omitempty"` // additionally bind the prefix k with xsel.WithNS
	Plain bool   `json:"plain,omitempty"`  // pass the bindings through the With* option functions only (no caller-owned maps)
	Idx   int    `json:"idx,omitempty"`    // reexec: index of the earlier exec op; subslice/unmarshal: held index
	I     int    `json:"i,omitempty"`
	J     int    `json:"j,omitempty"`
	K     int    `json:"k,omitempty"`
}

type c13Case struct {
	Events []xmodel.Event `json:"events"`
	// a second document (same shape and other values, or unrelated); nil: none
	Events2 []xmodel.Event `json:"events2,omitempty"`
	Exprs   []string       `json:"exprs"`
	Ops     []c13Op        `json:"ops"`
}

var c13Hist = reg("C13", "c13-history", checkC13)

type heldSet struct {
	ns   xsel.NodeSet   // the caller's slice
	full []store.Cursor // snapshot of ns[:cap(ns)] when it was taken
	doc  int            // the document its nodes belong to
}

// Target types of the "typed" operation.  Each closure declares its own type
// named rec: the types are distinct, their names (reflect.Type.String()) and
// field names are not.  What Unmarshal stores depends on the type's own tags
// only, whatever was unmarshaled before.
// checkNamedTarget unmarshals the element behind cur into the k-th of the
// same-named target types and compares every field with what its own tag
// evaluates to from that element.
func checkNamedTarget(cur store.Cursor, k int) error {
	target := c13Targets[k%len(c13Targets)]()
	var uerr error
	func() {
		defer func() {
			if r := recover(); r != nil {
				uerr = fmt.Errorf("panic: %v", r)
			}
		}()
		uerr = xsel.Unmarshal(xsel.NodeSet{cur}, target)
	}()
	if uerr != nil {
		return fmt.Errorf("Unmarshal into %T (#%d) failed: %v", target, k%len(c13Targets), uerr)
	}
	tv := reflect.ValueOf(target).Elem()
	for i := 0; i < tv.NumField(); i++ {
		tag := tv.Type().Field(i).Tag.Get("xsel")
		g, err := safeBuild(tag)
		if err != nil {
			return fmt.Errorf("harness: tag %q: %v", tag, err)
		}
		r, err := safeExec(cur, &g)
		if err != nil {
			return fmt.Errorf("harness: tag %q: %v", tag, err)
		}
		if got := tv.Field(i).String(); got != r.String() {
			return fmt.Errorf("%T (#%d): field %s `xsel:%q` holds %q, the tag's expression evaluates to %q from that node", target, k%len(c13Targets), tv.Type().Field(i).Name, tag, got, r.String())
		}
	}
	return nil
}

var c13Targets = []func() any{
	func() any {
		type rec struct {
			V string `xsel:"name()"`
			N string `xsel:"count(*)"`
			A string `xsel:"string(@*[1])"`
			B string `xsel:"count(preceding-sibling::*)"`
			C string `xsel:"local-name(*[last()])"`
		}
		return &rec{}
	},
	func() any {
		type rec struct {
			N string `xsel:"string-length(.)"`
		}
		return &rec{}
	},
	func() any {
		type rec struct {
			V string `xsel:"name()"`
			N string `xsel:"count(*)"`
		}
		return &rec{}
	},
	func() any {
		type rec struct {
			V string `xsel:"string(.)"`
			N string `xsel:"count(@*)"`
		}
		return &rec{}
	},
	func() any {
		type rec struct {
			V string `xsel:"local-name(..)"`
			N string `xsel:"count(ancestor::*)"`
		}
		return &rec{}
	},
	func() any {
		type rec struct {
			V string `xsel:"*[1]"`
			N string `xsel:"count(following::*)"`
		}
		return &rec{}
	},
}

func treeDigest(root store.Cursor) string {
	var sb strings.Builder
	var walk func(c store.Cursor)
	walk = func(c store.Cursor) {
		fmt.Fprintf(&sb, "%p|%d|%s|%p|%d,%d,%d;", c, c.Pos(), xmodel.DescribeCursor(c), c.Parent(), len(c.Namespaces()), len(c.Attributes()), len(c.Children()))
		for _, x := range c.Namespaces() {
			walk(x)
		}
		for _, x := range c.Attributes() {
			walk(x)
		}
		for _, x := range c.Children() {
			walk(x)
		}
	}
	walk(root)
	return sb.String()
}

func snapshotResult(r xsel.Result) string {
	switch v := r.(type) {
	case xsel.NodeSet:
		var sb strings.Builder
		sb.WriteString("nodes:")
		for _, c := range v {
			fmt.Fprintf(&sb, "%p,", c)
		}
		return sb.String()
	case xsel.Number:
		return fmt.Sprintf("num:%x", math.Float64bits(float64(v)))
	case xsel.String:
		return "str:" + string(v)
	case xsel.Bool:
		return fmt.Sprintf("bool:%v", bool(v))
	}
	return fmt.Sprintf("%T", r)
}

type execRecord struct {
	h      int
	doc    int
	expr   int
	node   string
	alt    bool
	k      bool
	plain  bool
	v, w   int
	result string
	err    bool
}

func checkC13(c *c13Case) error {
	p, err := prepareDoc(c.Events)
	if err != nil {
		st.Discard("document-not-mirrored")
		return nil
	}
	exprs := make([]*xsel.Grammar, len(c.Exprs))
	for i, text := range c.Exprs {
		g, err := safeBuild(text)
		if err != nil {
			return fmt.Errorf("BuildExpr(%q): %v", text, firstLine(err.Error()))
		}
		exprs[i] = &g
	}
	docs := []*prepared{p}
	if c.Events2 != nil {
		p2, err := prepareDoc(c.Events2)
		if err != nil {
			st.Discard("document-not-mirrored")
			return nil
		}
		docs = append(docs, p2)
	}
	digest := treeDigest(p.root)
	digest2 := ""
	if len(docs) > 1 {
		digest2 = treeDigest(docs[1].root)
	}
	var held []heldSet
	// caller-owned binding maps, installed into every query
	nsMap := map[string]string{"x": "urn:x", "y": "urn:y"}
	nsAlt := map[string]string{"x": "urn:y", "y": "urn:x"} // the same prefixes bound the other way round
	vars := map[xsel.XmlName]xsel.Result{{Local: "n"}: xsel.Number(2), {Local: "s"}: xsel.String("a"),
		{Space: "urn:x", Local: "n"}: xsel.Number(10), {Space: "urn:y", Local: "n"}: xsel.Number(20)}
	funcs := map[xsel.XmlName]xsel.Function{}
	var heldForFn xsel.NodeSet // what h:held() returns: the very slice the caller holds as $v
	heldFn := func(xsel.Context, ...xsel.Result) (xsel.Result, error) { return heldForFn, nil }
	records := map[int]execRecord{}
	checkInvariants := func(step int, what string) error {
		if d := treeDigest(p.root); d != digest {
			return fmt.Errorf("step %d (%s): the document tree changed", step, what)
		}
		if len(docs) > 1 && treeDigest(docs[1].root) != digest2 {
			return fmt.Errorf("step %d (%s): the second document's tree changed", step, what)
		}
		for i, h := range held {
			full := h.ns[:cap(h.ns)]
			if len(full) != len(h.full) {
				return fmt.Errorf("step %d (%s): held node-set %d changed capacity", step, what, i)
			}
			for k := range full {
				if full[k] != h.full[k] {
					where := "within its length"
					if k >= len(h.ns) {
						where = "beyond its length, inside its capacity"
					}
					return fmt.Errorf("step %d (%s): caller-held node-set %d was modified at index %d (%s): now %v, was %v", step, what, i, k, where, refsOfCursors(full, docs[h.doc].loc), refsOfCursors(h.full, docs[h.doc].loc))
				}
			}
		}
		if len(nsMap) != 2 || nsMap["x"] != "urn:x" || nsMap["y"] != "urn:y" || len(nsAlt) != 2 || nsAlt["x"] != "urn:y" || nsAlt["y"] != "urn:x" {
			return fmt.Errorf("step %d (%s): the caller's namespace map changed: %v", step, what, nsMap)
		}
		if len(funcs) != 0 {
			return fmt.Errorf("step %d (%s): the caller's function map changed", step, what)
		}
		return nil
	}
	doExec := func(op c13Op, g *xsel.Grammar) (string, bool, xsel.Result) {
		callVars := map[xsel.XmlName]xsel.Result{}
		for k, v := range vars {
			callVars[k] = v
		}
		if op.Alt {
			callVars[xsel.XmlName{Local: "n"}] = xsel.Number(3)
			callVars[xsel.XmlName{Local: "s"}] = xsel.String("2")
		}
		d := docs[op.Doc%len(docs)]
		if op.V >= 0 && op.V < len(held) && held[op.V].doc == op.Doc%len(docs) {
			callVars[xsel.XmlName{Local: "v"}] = held[op.V].ns
		} else {
			callVars[xsel.XmlName{Local: "v"}] = xsel.NodeSet{}
		}
		if op.W >= 0 && op.W < len(held) && held[op.W].doc == op.Doc%len(docs) {
			callVars[xsel.XmlName{Local: "w"}] = held[op.W].ns
		} else {
			callVars[xsel.XmlName{Local: "w"}] = xsel.NodeSet{}
		}
		before := len(callVars)
		heldForFn, _ = callVars[xsel.XmlName{Local: "v"}].(xsel.NodeSet)
		if op.H > 0 && op.H <= len(held) {
			heldForFn = held[op.H-1].ns
		}
		apply := func(cs *xsel.ContextSettings) {
			cs.NamespaceDecls = nsMap
			if op.Alt {
				cs.NamespaceDecls = nsAlt
			}
			cs.Variables = callVars
			cs.FunctionLibrary = funcs
		}
		n := d.doc.Resolve(op.Node)
		if n == nil {
			n = d.doc.Root
		}
		settings := []xsel.ContextApply{apply}
		if op.Plain {
			// the library's own maps, filled only through the option functions
			settings = nil
			nsm := nsMap
			if op.Alt {
				nsm = nsAlt
			}
			for _, pf := range []string{"x", "y"} {
				settings = append(settings, xsel.WithNS(pf, nsm[pf]))
			}
			for k, v := range callVars {
				settings = append(settings, xsel.WithVariableName(k, v))
			}
		}
		if op.BindK {
			settings = append(settings, xsel.WithNS("k", "urn:x"))
		}
		if op.Plain && op.Alt {
			// this query - and only this one - binds a user function and shadows a core one
			settings = append(settings, xsel.WithFunction("probe", func(xsel.Context, ...xsel.Result) (xsel.Result, error) { return xsel.Number(1), nil }),
				xsel.WithFunction("string-length", func(xsel.Context, ...xsel.Result) (xsel.Result, error) { return xsel.Number(7), nil }))
		}
		// a user function that hands out a node-set the caller still holds (registered per call, never in the caller's map)
		settings = append(settings, func(cs *xsel.ContextSettings) {
			if cs.FunctionLibrary == nil || len(cs.FunctionLibrary) == 0 && op.Plain {
				cs.FunctionLibrary = map[xsel.XmlName]xsel.Function{}
			}
			if op.Plain {
				cs.FunctionLibrary[xsel.XmlName{Space: "urn:held", Local: "held"}] = heldFn
			}
			if cs.NamespaceDecls != nil && op.Plain {
				cs.NamespaceDecls["h"] = "urn:held"
			}
		})
		r, err := safeExec(d.loc.ToCur[n], g, settings...)
		if op.BindK {
			// WithNS wrote into the caller's map: take it out again (the caller owns the map)
			delete(nsMap, "k")
			delete(nsAlt, "k")
		}
		if len(callVars) != before {
			return "the caller's variable map changed", true, nil
		}
		if err != nil {
			return "error", true, nil
		}
		return snapshotResult(r), false, r
	}
	reexecs, aliased, scribbles, typeds := 0, false, 0, 0
	for step, op := range c.Ops {
		what := op.Op
		switch op.Op {
		case "exec":
			if op.Expr >= len(exprs) {
				continue
			}
			// indices beyond the slices held so far mean "no binding"; pin that
			// down now so that a later repeat uses the same bindings
			if op.V >= len(held) {
				op.V = -1
			}
			if op.W >= len(held) {
				op.W = -1
			}
			op.Doc %= len(docs)
			if op.V >= 0 && held[op.V].doc != op.Doc {
				op.V = -1
			}
			if op.W >= 0 && held[op.W].doc != op.Doc {
				op.W = -1
			}
			op.H = 0
			for i := len(held) - 1; i >= 0; i-- {
				// h:held() preferably returns a held slice that is NOT in document order (most recent first)
				if h := held[i]; h.doc == op.Doc && len(h.ns) >= 2 && h.ns[0].Pos() > h.ns[len(h.ns)-1].Pos() {
					op.H = i + 1
					break
				}
			}
			what = fmt.Sprintf("exec %q on document %d from %s with $v=held[%d] $w=held[%d]", c.Exprs[op.Expr], op.Doc, op.Node, op.V, op.W)
			snap, isErr, r := doExec(op, exprs[op.Expr])
			if strings.HasPrefix(snap, "the caller's") {
				return fmt.Errorf("step %d (%s): %s", step, what, snap)
			}
			st.Eval(1)
			if strings.Contains(c.Exprs[op.Expr], "h:held") {
				st.Class(fmt.Sprintf("h:held() executed plain=%v error=%v v=%v", op.Plain, isErr, op.V >= 0))
			}
			records[step] = execRecord{op.H, op.Doc, op.Expr, op.Node, op.Alt, op.BindK, op.Plain, op.V, op.W, snap, isErr}
			// a prefix is bound only for the query it was bound for
			if strings.Contains(c.Exprs[op.Expr], "k:") && !op.BindK && !isErr && op.Node == "/" {
				return fmt.Errorf("step %d (%s): the prefix k is not bound for this query (an earlier query bound it) but the query succeeded: %s", step, what, snap)
			}
			// user functions are bound for the query they were bound for
			if !(op.Plain && op.Alt) {
				if c.Exprs[op.Expr] == "probe()" && !isErr {
					return fmt.Errorf("step %d (%s): the function probe() is not bound for this query (an earlier query bound it) but the query succeeded: %s", step, what, snap)
				}
				if n, ok := r.(xsel.Number); c.Exprs[op.Expr] == "string-length('abcde')" && (!ok || n != 5) {
					return fmt.Errorf("step %d (%s): string-length('abcde') = %s although this query does not shadow the core function (an earlier query did)", step, what, snap)
				}
			}
			// a variable evaluates to the value bound under the query's OWN bindings,
			// whatever bindings earlier queries used
			if c.Exprs[op.Expr] == "$x:n" || c.Exprs[op.Expr] == "$y:n" {
				want := 10.0
				if (c.Exprs[op.Expr] == "$y:n") != op.Alt {
					want = 20
				}
				if n, ok := r.(xsel.Number); !ok || float64(n) != want {
					return fmt.Errorf("step %d (%s, alternate bindings %v): got %s, the variable bound under this query's namespace bindings is %v", step, what, op.Alt, snap, want)
				}
			}
			if ns, ok := r.(xsel.NodeSet); ok && op.Hold {
				if op.Alt != op.Plain {
					// the caller keeps its own copy, in a slice with room to spare (nil beyond its length)
					own := make(xsel.NodeSet, len(ns), len(ns)+1+step%5)
					copy(own, ns)
					if step%3 == 0 {
						// ... and in its own order
						for i, j := 0, len(own)-1; i < j; i, j = i+1, j-1 {
							own[i], own[j] = own[j], own[i]
						}
					}
					ns = own
				}
				held = append(held, heldSet{ns, append([]store.Cursor{}, ns[:cap(ns)]...), op.Doc})
			}
			if (op.V >= 0 && op.V < len(held) || op.W >= 0 && op.W < len(held)) && strings.Contains(c.Exprs[op.Expr], "$") {
				aliased = true
			}
		case "reexec":
			rec, ok := records[op.Idx]
			if !ok {
				continue
			}
			what = fmt.Sprintf("re-exec of step %d: %q on document %d from %s", op.Idx, c.Exprs[rec.expr], rec.doc, rec.node)
			snap, _, _ := doExec(c13Op{H: rec.h, Doc: rec.doc, Expr: rec.expr, Node: rec.node, Alt: rec.alt, BindK: rec.k, Plain: rec.plain, V: rec.v, W: rec.w}, exprs[rec.expr])
			st.Eval(1)
			reexecs++
			if snap != rec.result {
				return fmt.Errorf("step %d (%s): the same expression, node and bindings gave a different result than at step %d", step, what, op.Idx)
			}
		case "subslice":
			if op.Idx < 0 || op.Idx >= len(held) {
				continue
			}
			src := held[op.Idx].ns
			i, j, k := op.I, op.J, op.K
			if j > len(src) {
				j = len(src)
			}
			if i > j {
				i = j
			}
			if k < j {
				k = j
			}
			if k > cap(src) {
				k = cap(src)
			}
			sub := src[i:j:k]
			held = append(held, heldSet{sub, append([]store.Cursor{}, sub[:cap(sub)]...), held[op.Idx].doc})
			what = fmt.Sprintf("held[%d][%d:%d:%d]", op.Idx, i, j, k)
		case "badbuild":
			// a rejected compilation in between
			safeBuild([]string{"a[1", "a b", "1 +", "f(", "a |", "a/", "'x", "(1"}[op.Mode%8])
			what = "a rejected BuildExpr"
		case "rebuild":
			if op.Expr >= len(exprs) {
				continue
			}
			g, err := safeBuild(c.Exprs[op.Expr])
			if err != nil {
				return fmt.Errorf("step %d: BuildExpr(%q) failed the second time: %v", step, c.Exprs[op.Expr], err)
			}
			exprs[op.Expr] = &g
			what = fmt.Sprintf("rebuild %q", c.Exprs[op.Expr])
		case "scribble":
			// the caller edits a slice it owns (a result it kept): later queries
			// must not notice
			if op.Idx < 0 || op.Idx >= len(held) || len(held[op.Idx].ns) == 0 {
				continue
			}
			own := held[op.Idx].ns
			switch op.Mode % 3 {
			case 0:
				for i, j := 0, len(own)-1; i < j; i, j = i+1, j-1 {
					own[i], own[j] = own[j], own[i]
				}
				what = fmt.Sprintf("caller reverses held[%d] in place", op.Idx)
			case 1:
				// in-place filter: keep every second node, the rest of the length repeats the last one kept
				k := 0
				for i := 0; i < len(own); i += 2 {
					own[k] = own[i]
					k++
				}
				for i := k; i < len(own); i++ {
					own[i] = own[k-1]
				}
				what = fmt.Sprintf("caller filters held[%d] in place", op.Idx)
			default:
				for i := range own {
					own[i] = own[0]
				}
				what = fmt.Sprintf("caller overwrites held[%d] with its first node", op.Idx)
			}
			scribbles++
			// the edit is the caller's own: take new snapshots of every held slice
			// (sub-slices share storage) and forget the executions whose bindings
			// included a held slice
			for i := range held {
				held[i].full = append([]store.Cursor{}, held[i].ns[:cap(held[i].ns)]...)
			}
			for k, rec := range records {
				if rec.v >= 0 || rec.w >= 0 || rec.h > 0 {
					delete(records, k)
				}
			}
		case "typed":
			d := docs[op.Doc%len(docs)]
			n := d.doc.Resolve(op.Node)
			if n == nil || n.Kind != xmodel.Elem {
				continue
			}
			cur := d.loc.ToCur[n]
			what = fmt.Sprintf("Unmarshal(%s of document %d, same-named type #%d)", op.Node, op.Doc%len(docs), op.Mode%len(c13Targets))
			if err := checkNamedTarget(cur, op.Mode); err != nil {
				return fmt.Errorf("step %d (%s): %v", step, what, err)
			}
			st.Eval(1)
			typeds++
		case "unmarshal":
			if op.Idx < 0 || op.Idx >= len(held) {
				continue
			}
			var target []string
			func() {
				defer func() { recover() }()
				xsel.Unmarshal(held[op.Idx].ns, &target)
			}()
			what = fmt.Sprintf("Unmarshal(held[%d], *[]string)", op.Idx)
		}
		if err := checkInvariants(step, what); err != nil {
			return err
		}
	}
	// determinism across a fresh build of every expression
	for step, rec := range records {
		g, err := safeBuild(c.Exprs[rec.expr])
		if err != nil {
			return fmt.Errorf("BuildExpr(%q) failed on a repeat: %v", c.Exprs[rec.expr], err)
		}
		snap, _, _ := doExec(c13Op{H: rec.h, Doc: rec.doc, Expr: rec.expr, Node: rec.node, Alt: rec.alt, BindK: rec.k, Plain: rec.plain, V: rec.v, W: rec.w}, &g)
		st.Eval(1)
		if snap != rec.result {
			return fmt.Errorf("a freshly built %q on document %d from %s gave a different result than the reused expression at step %d", c.Exprs[rec.expr], rec.doc, rec.node, step)
		}
	}
	if scribbles > 0 {
		st.Class("caller-edited-own-result")
	}
	if typeds > 1 {
		st.Class("unmarshal-into-several-same-named-types")
	}
	if len(docs) > 1 {
		st.Class("two-documents")
	}
	if reexecs > 0 && aliased {
		key := fmt.Sprint(c.Exprs, c.Ops, len(c.Events))
		st.NonTrivial(key)
		st.Class("reexec-and-aliased-operand")
		if len(c.Events) <= 24 && len(c.Ops) <= 12 {
			st.Sample(key, map[string]any{"events": eventStrings(c.Events), "exprs": c.Exprs, "ops": c.Ops})
		}
	}
	return nil
}

var _ = reflect.DeepEqual

func TestC13(t *testing.T) {
	runWitnesses(t, "C13")
	runProp(t, "history", 20000, 200000, func(t *rapid.T) {
		ev := xmodel.Gen(t, xmodel.GenCfg{MaxDepth: 3, MaxKids: 4, Names: []string{"a", "b", "c"}, Numeric: true})
		doc := xmodel.Build(ev)
		elems, attrs, _ := docNames(doc)
		g := &xast.G{T: t, Env: xast.GenEnv{ElemNames: queryable(elems), AttrNames: queryable(attrs), Prefixes: []string{"x", "y"}, NumVars: []string{"n"}, StrVars: []string{"s"}, NodeVars: []string{"v", "w"}, NoLang: true}}
		c := &c13Case{Events: ev}
		doc2 := doc
		switch rapid.IntRange(0, 3).Draw(t, "secondDoc") {
		case 0:
			// the same shape with other values: every position of the first document exists in the second
			for _, e := range ev {
				if (e.K == "T" || e.K == "A") && e.Value != "" && rapid.Bool().Draw(t, "otherValue") {
					e.Value = []string{"1", "2", "3", "10", "9", "2.5", "abc"}[rapid.IntRange(0, 6).Draw(t, "value2")]
				}
				c.Events2 = append(c.Events2, e)
			}
			doc2 = xmodel.Build(c.Events2)
		case 1:
			c.Events2 = xmodel.Gen(t, xmodel.GenCfg{MaxDepth: 3, MaxKids: 4, Names: []string{"a", "b", "c"}, Numeric: true})
			doc2 = xmodel.Build(c.Events2)
		}
		fixed := []string{"$v | //a", "//a | $v", "$v | $v", "$v | $w", "$v | /nope", "($v | $w)[1]", "$v/..", "$v[1]", "$v[last()]", "count($v | //b)", "//node()", "//*/ancestor::*", "//@*/..", "$w//text()", "$v/ancestor::*/@*",
			"$v/self::a", "$v/self::*", "$w/self::b", "count($v/self::b)", "$v/self::node()[1]", "$x:n", "$x:n + count(//x:a)", "//x:*", "$y:n",
			"//a[//b[. = $n]]", "//*[count(//a[. >= $n]) > 0]", "//a[/descendant::b = $s]", "//*[. = //a[. = $n]]", "//k:*", "count(//k:a)", "//*[k:b]",
			// plain absolute paths inside predicates; whole-document selections handed to the caller as they are
			"//a[. = //b]", "//*[. = /*/*]", "//a[/*/b]", "//b[not(. = //a)]", "//*[count(/*/*) > 1]", "/descendant-or-self::node()", "//.", "//*", "/", ".", "*", "@*", "//text()", "//a", "//b", "//c",
			"descendant-or-self::node()", "/*", "//*[1]", "..", "self::node()", "ancestor-or-self::node()", "following::node()", "preceding::node()",
			// names rendered by the library; the implicit xml prefix
			"name(//x:*)", "name(//*[namespace-uri() != ''])", "//*[starts-with(name(), 'x:')]", "name(/*)", "name(//@*[namespace-uri() != ''])", "count(//*[name() = 'x:a'])", "concat(name(//x:a), '|', name(//y:a))",
			"//@xml:lang", "//xml:*", "count(//@xml:*)", "//*[@xml:lang]", "$xml:n",
			// axes that include their context nodes, straight from a caller-held slice
			"$v//*", "$v/descendant-or-self::*", "$w/ancestor-or-self::*", "$v/descendant-or-self::node()", "$w/ancestor-or-self::node()", "$v/following::*", "$w/preceding::*", "$v/*", "$w/@*", "$v/namespace::*",
			"$v/following-sibling::*", "$w/preceding-sibling::*", "$v/descendant::*", "$w/ancestor::*", "$v/parent::*", "$v/self::*",
			// literals with backslashes (single-quoted: plain characters)
			"probe()", "string-length('abcde')", "probe() + string-length(name(/*))", "//*[string-length(name()) = 1]",
			"h:held()[1]", "h:held()[last()]", "(h:held())[. = 1]", "h:held() | //a", "h:held()/self::*", "count(h:held()[position() > 1])",
			"'a\\b'", "//*[. = 'x\\ty']", "concat('\\n', 'q', name(/*))", "string-length('\\r\\n-')"}
		for i, n := 0, rapid.IntRange(3, 6).Draw(t, "nExprs"); i < n; i++ {
			if rapid.Bool().Draw(t, "fixedExpr") {
				c.Exprs = append(c.Exprs, fixed[rapid.IntRange(0, len(fixed)-1).Draw(t, "fixed")])
			} else {
				c.Exprs = append(c.Exprs, xast.RenderMinimal(g.Any(2)))
			}
		}
		nHeld := 0
		var execs []int
		for i, n := 0, rapid.IntRange(4, 25).Draw(t, "nOps"); i < n; i++ {
			switch k := rapid.IntRange(0, 12).Draw(t, "op"); {
			case k == 9 && rapid.Bool().Draw(t, "badBuild"):
				c.Ops = append(c.Ops, c13Op{Op: "badbuild", Mode: rapid.IntRange(0, 7).Draw(t, "bad")})
			case k == 10 && nHeld > 0:
				c.Ops = append(c.Ops, c13Op{Op: "scribble", Idx: rapid.IntRange(0, nHeld-1).Draw(t, "which"), Mode: rapid.IntRange(0, 2).Draw(t, "scribbleMode")})
			case k == 11 || k == 12 && nHeld == 0:
				op := c13Op{Op: "typed", Mode: rapid.IntRange(0, len(c13Targets)-1).Draw(t, "target")}
				d := doc
				if c.Events2 != nil && rapid.Bool().Draw(t, "onSecond") {
					op.Doc, d = 1, doc2
				}
				op.Node = d.All[rapid.IntRange(0, len(d.All)-1).Draw(t, "node")].Ref()
				c.Ops = append(c.Ops, op)
			case k <= 4 || nHeld == 0 || k == 12:
				op := c13Op{Op: "exec", Expr: rapid.IntRange(0, len(c.Exprs)-1).Draw(t, "expr"), V: -1, W: -1, Hold: rapid.Bool().Draw(t, "hold"), Alt: rapid.IntRange(0, 2).Draw(t, "altBindings") == 0, BindK: rapid.IntRange(0, 2).Draw(t, "bindK") == 0, Plain: rapid.Bool().Draw(t, "plainOptions")}
				d := doc
				if c.Events2 != nil && rapid.Bool().Draw(t, "onSecond") {
					op.Doc, d = 1, doc2
				}
				op.Node = d.All[rapid.IntRange(0, len(d.All)-1).Draw(t, "node")].Ref()
				if rapid.Bool().Draw(t, "fromRoot") {
					op.Node = "/"
				}
				if nHeld > 0 {
					op.V = rapid.IntRange(-1, nHeld-1).Draw(t, "v")
					op.W = rapid.IntRange(-1, nHeld-1).Draw(t, "w")
					if rapid.IntRange(0, 3).Draw(t, "sameSlice") == 0 {
						op.W = op.V
					}
				}
				if op.Hold {
					nHeld++ // upper bound: only node-set results are held; indices are clamped by the interpreter
				}
				execs = append(execs, len(c.Ops))
				c.Ops = append(c.Ops, op)
			case k <= 6 && len(execs) > 0:
				c.Ops = append(c.Ops, c13Op{Op: "reexec", Idx: execs[rapid.IntRange(0, len(execs)-1).Draw(t, "which")]})
			case k == 7:
				c.Ops = append(c.Ops, c13Op{Op: "subslice", Idx: rapid.IntRange(0, nHeld-1).Draw(t, "from"), I: rapid.IntRange(0, 3).Draw(t, "i"), J: rapid.IntRange(0, 5).Draw(t, "j"), K: rapid.IntRange(0, 8).Draw(t, "k")})
				nHeld++
			case k == 8:
				c.Ops = append(c.Ops, c13Op{Op: "rebuild", Expr: rapid.IntRange(0, len(c.Exprs)-1).Draw(t, "expr")})
			default:
				c.Ops = append(c.Ops, c13Op{Op: "unmarshal", Idx: rapid.IntRange(0, nHeld-1).Draw(t, "which")})
			}
		}
		st.Class(fmt.Sprintf("ops=%d", len(c.Ops)/5*5))
		c13Hist.run(t, c)
	})
}
