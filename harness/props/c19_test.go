package props

import (
	"fmt"
	"math"
	"reflect"
	"strconv"
	"strings"
	"testing"
	"unsafe"

	"github.com/ChrisTrenkamp/xsel"
	"github.com/ChrisTrenkamp/xsel/store"
	"pgregory.net/rapid"

	"verif/xast"
	"verif/xmodel"
)

// C19 - Unmarshal fills targets with the converted results of their tag queries.

// tdesc describes a target type; the reflect.Type is built at run time.
type tdesc struct {
	Kind   string  `json:"kind"` // string bool int..uint64 float32 float64 struct slice ptr
	Elem   *tdesc  `json:"elem,omitempty"`
	Fields []fdesc `json:"fields,omitempty"`
}

type fdesc struct {
	Name     string `json:"name"`
	Tag      string `json:"tag,omitempty"` // XPath text; "" = untagged (keeps its sentinel)
	T        *tdesc `json:"t"`
	Embedded bool   `json:"embedded,omitempty"` // an embedded (anonymous) struct field
}

type c19Case struct {
	Events      []xmodel.Event `json:"events"`
	Select      string         `json:"select"`                // query producing the node-set handed to Unmarshal
	Target      *tdesc         `json:"target"`                // type pointed to by the value passed (struct, slice or pointer chain)
	Prepopulate bool           `json:"prepopulate,omitempty"` // tagged slice fields of the top struct hold two elements before the call
	Prefill     bool           `json:"prefill,omitempty"`     // tagged pointer fields of the top struct point to caller-owned values before the call
	Bind        int            `json:"bind,omitempty"`        // how many of c19Bindings are passed to Unmarshal (0: none)
}

// c19Bindings: the settings passed to Unmarshal (and to the Exec calls that
// define the expected field values): a namespace, two variables, a user
// function, a namespaced one, and one that shadows a builtin.
func c19Bindings(n int) []xsel.ContextApply {
	all := []xsel.ContextApply{
		xsel.WithVariable("n", xsel.Number(3)),
		xsel.WithFunction("probe", func(xsel.Context, ...xsel.Result) (xsel.Result, error) { return xsel.String("called"), nil }),
		xsel.WithNS("u", "urn:fn"),
		xsel.WithFunctionNS("urn:fn", "up", func(_ xsel.Context, a ...xsel.Result) (xsel.Result, error) {
			if len(a) == 0 {
				return xsel.String("UP"), nil
			}
			return xsel.String(strings.ToUpper(a[0].String())), nil
		}),
		xsel.WithVariable("s", xsel.String("sv")),
		xsel.WithNS("p", "urn:y"),
		xsel.WithFunction("concat", func(xsel.Context, ...xsel.Result) (xsel.Result, error) { return xsel.String("shadowed"), nil }),
	}
	if n > len(all) {
		n = len(all)
	}
	return all[:n]
}

var c19BindN int // the bindings of the case being checked (single-threaded)

var c19Fill = reg("C19", "c19-fill", checkC19)
var c19Bad = reg("C19", "c19-unsupported", checkC19Bad)

var scalarKinds = map[string]reflect.Type{
	"string": reflect.TypeOf(""), "bool": reflect.TypeOf(false),
	"int": reflect.TypeOf(int(0)), "int8": reflect.TypeOf(int8(0)), "int16": reflect.TypeOf(int16(0)), "int32": reflect.TypeOf(int32(0)), "int64": reflect.TypeOf(int64(0)),
	"uint": reflect.TypeOf(uint(0)), "uint8": reflect.TypeOf(uint8(0)), "uint16": reflect.TypeOf(uint16(0)), "uint32": reflect.TypeOf(uint32(0)), "uint64": reflect.TypeOf(uint64(0)),
	"float32": reflect.TypeOf(float32(0)), "float64": reflect.TypeOf(float64(0)),
}

func (d *tdesc) typ() reflect.Type {
	if t, ok := scalarKinds[d.Kind]; ok {
		return t
	}
	switch d.Kind {
	case "ptr":
		return reflect.PointerTo(d.Elem.typ())
	case "slice":
		return reflect.SliceOf(d.Elem.typ())
	case "struct":
		var fs []reflect.StructField
		for _, f := range d.Fields {
			sf := reflect.StructField{Name: f.Name, Type: f.T.typ(), Anonymous: f.Embedded}
			if f.Tag != "" {
				sf.Tag = reflect.StructTag("xsel:" + strconv.Quote(f.Tag))
			}
			fs = append(fs, sf)
		}
		return reflect.StructOf(fs)
	}
	panic("bad tdesc kind " + d.Kind)
}

func (d *tdesc) strip() (*tdesc, int) {
	n := 0
	for d.Kind == "ptr" {
		d = d.Elem
		n++
	}
	return d, n
}

func sentinel(t reflect.Type) reflect.Value {
	v := reflect.New(t).Elem()
	switch t.Kind() {
	case reflect.String:
		v.SetString("sentinel")
	case reflect.Bool:
		v.SetBool(true)
	case reflect.Int, reflect.Int8, reflect.Int16, reflect.Int32, reflect.Int64:
		v.SetInt(77)
	case reflect.Uint, reflect.Uint8, reflect.Uint16, reflect.Uint32, reflect.Uint64:
		v.SetUint(77)
	case reflect.Float32, reflect.Float64:
		v.SetFloat(7.5)
	case reflect.Struct:
		// an untagged struct field: every field inside keeps a sentinel, tagged or not
		for i := 0; i < t.NumField(); i++ {
			v.Field(i).Set(sentinel(t.Field(i).Type))
		}
	case reflect.Pointer:
		p := reflect.New(t.Elem())
		p.Elem().Set(sentinel(t.Elem()))
		v.Set(p)
	case reflect.Slice:
		v.Set(reflect.Append(v, sentinel(t.Elem())))
	}
	return v
}

var errExpectErr = fmt.Errorf("the property requires an error")
var errUnspecified = fmt.Errorf("conversion is implementation-defined")

type c19Env struct {
	exprs map[string]*xsel.Grammar
}

// expected computes what Unmarshal must produce, field by field, from
// separate Exec calls and plain conversions.  init is the value the target
// held before (for untagged fields).
func expected(d *tdesc, node store.Cursor, init reflect.Value) (reflect.Value, error) {
	out := reflect.New(d.typ()).Elem()
	if init.IsValid() {
		out.Set(init)
	}
	for i, f := range d.Fields {
		if f.Tag == "" {
			continue
		}
		g, err := buildExpr(f.Tag)
		if err != nil {
			return out, errExpectErr
		}
		res, err := safeExec(node, g, c19Bindings(c19BindN)...)
		if err != nil {
			return out, errExpectErr
		}
		base, nptr := f.T.strip()
		val, err := convert(base, res)
		if err != nil {
			return out, err
		}
		for k := 0; k < nptr; k++ {
			p := reflect.New(val.Type())
			p.Elem().Set(val)
			val = p
		}
		out.Field(i).Set(val)
	}
	return out, nil
}

func convert(base *tdesc, res xsel.Result) (reflect.Value, error) {
	t := base.typ()
	switch base.Kind {
	case "string":
		return reflect.ValueOf(res.String()), nil
	case "bool":
		return reflect.ValueOf(res.Bool()), nil
	case "struct":
		ns, ok := res.(xsel.NodeSet)
		if !ok || len(ns) != 1 {
			return reflect.Value{}, errExpectErr
		}
		return expected(base, ns[0], reflect.Value{})
	case "slice":
		ns, ok := res.(xsel.NodeSet)
		if !ok {
			return reflect.Value{}, errExpectErr
		}
		sl := reflect.MakeSlice(t, 0, len(ns))
		eb, nptr := base.Elem.strip()
		for _, n := range ns {
			if eb.Kind == "slice" {
				return reflect.Value{}, errExpectErr
			}
			ev, err := convert(eb, xsel.NodeSet{n})
			if err != nil {
				return reflect.Value{}, err
			}
			for k := 0; k < nptr; k++ {
				p := reflect.New(ev.Type())
				p.Elem().Set(ev)
				ev = p
			}
			sl = reflect.Append(sl, ev)
		}
		return sl, nil
	}
	// numeric kinds: the number value converted to the field type; Go leaves
	// the conversion of NaN and out-of-range values to integers
	// implementation-defined, so such cases are not judged
	f := res.Number()
	switch t.Kind() {
	case reflect.Float32, reflect.Float64:
	default:
		lo, hi := -math.Ldexp(1, t.Bits()-1), math.Ldexp(1, t.Bits()-1)
		if t.Kind() >= reflect.Uint && t.Kind() <= reflect.Uint64 {
			lo, hi = 0, math.Ldexp(1, t.Bits())
		}
		if math.IsNaN(f) || f <= lo-1 || f >= hi {
			return reflect.Value{}, errUnspecified
		}
	}
	return reflect.ValueOf(f).Convert(t), nil
}

// deepEq is reflect.DeepEqual except that NaN equals NaN and a nil slice
// equals an empty one.
func deepEq(a, b reflect.Value, path string) error {
	if a.Type() != b.Type() {
		return fmt.Errorf("%s: type %v vs %v", path, a.Type(), b.Type())
	}
	switch a.Kind() {
	case reflect.Pointer:
		if a.IsNil() || b.IsNil() {
			if a.IsNil() != b.IsNil() {
				return fmt.Errorf("%s: got nil=%v, want nil=%v", path, a.IsNil(), b.IsNil())
			}
			return nil
		}
		return deepEq(a.Elem(), b.Elem(), path+"*")
	case reflect.Struct:
		for i := 0; i < a.NumField(); i++ {
			if err := deepEq(a.Field(i), b.Field(i), path+"."+a.Type().Field(i).Name); err != nil {
				return err
			}
		}
		return nil
	case reflect.Slice:
		if a.Len() != b.Len() {
			return fmt.Errorf("%s: got %d elements, want %d", path, a.Len(), b.Len())
		}
		for i := 0; i < a.Len(); i++ {
			if err := deepEq(a.Index(i), b.Index(i), fmt.Sprintf("%s[%d]", path, i)); err != nil {
				return err
			}
		}
		return nil
	case reflect.Float32, reflect.Float64:
		if a.Float() != b.Float() && !(math.IsNaN(a.Float()) && math.IsNaN(b.Float())) {
			return fmt.Errorf("%s: got %v, want %v", path, a.Float(), b.Float())
		}
		return nil
	}
	if !reflect.DeepEqual(a.Interface(), b.Interface()) {
		return fmt.Errorf("%s: got %#v, want %#v", path, a.Interface(), b.Interface())
	}
	return nil
}

func safeUnmarshal(res xsel.Result, v any, set ...xsel.ContextApply) (err error) {
	defer func() {
		if r := recover(); r != nil {
			err = &panicError{r}
		}
	}()
	return xsel.Unmarshal(res, v, set...)
}

// c19Tree is a recursive target type: the whole subtree of an element, however deep.
type c19Tree struct {
	Name string    `xsel:"name()"`
	Kids []c19Tree `xsel:"*"`
}

func checkC19Tree(cur store.Cursor, t *c19Tree, path string) error {
	g := xsel.MustBuildExpr("name()")
	r, err := safeExec(cur, &g)
	if err != nil {
		return fmt.Errorf("harness: %v", err)
	}
	if t.Name != r.String() {
		return fmt.Errorf("%s.Name = %q, the element's name() is %q", path, t.Name, r.String())
	}
	var elems []store.Cursor
	for _, k := range cur.Children() {
		if xmodel.KindOfCursor(k) == xmodel.Elem {
			elems = append(elems, k)
		}
	}
	if len(t.Kids) != len(elems) {
		return fmt.Errorf("%s.Kids has %d elements, the element has %d element children", path, len(t.Kids), len(elems))
	}
	for i := range elems {
		if err := checkC19Tree(elems[i], &t.Kids[i], fmt.Sprintf("%s.Kids[%d]", path, i)); err != nil {
			return err
		}
	}
	return nil
}

func checkC19(c *c19Case) error {
	p, err := prepareDoc(c.Events)
	if err != nil {
		st.Discard("document-not-mirrored")
		return nil
	}
	if len(p.doc.All)%3 == 0 || len(c.Events) > 150 {
		// the document element into a recursive type ("struct fields recursively", for all nestings)
		for _, top := range p.root.Children() {
			if xmodel.KindOfCursor(top) != xmodel.Elem {
				continue
			}
			var tree c19Tree
			if err := safeUnmarshal(xsel.NodeSet{top}, &tree); err != nil {
				return fmt.Errorf("Unmarshal of the document element into the recursive type c19Tree failed: %v", err)
			}
			if err := checkC19Tree(top, &tree, "tree"); err != nil {
				return fmt.Errorf("Unmarshal of the document element into the recursive type c19Tree: %v", err)
			}
			break
		}
	}
	g, err := buildExpr(c.Select)
	if err != nil {
		return fmt.Errorf("bad case: %v", err)
	}
	res, err := safeExec(p.root, g)
	if err != nil {
		return fmt.Errorf("bad case: select failed: %v", err)
	}
	ns, _ := res.(xsel.NodeSet)
	c19BindN = c.Bind
	base, nptr := c.Target.strip()
	t := base.typ()
	// the target: a pointer chain of depth nptr+1 to a value with sentinels in untagged fields
	target := reflect.New(t)
	if base.Kind == "struct" {
		for i, f := range base.Fields {
			if f.Tag == "" {
				target.Elem().Field(i).Set(sentinel(f.T.typ()))
			} else if f.T.Kind == "ptr" && c.Prefill {
				// a tagged pointer field that already points somewhere: the pointee is the
				// caller's ("pointer fields freshly allocated")
				target.Elem().Field(i).Set(sentinel(f.T.typ()))
			} else if f.T.Kind == "slice" && c.Prepopulate {
				// a tagged slice field that already holds elements: they must be replaced
				fv := target.Elem().Field(i)
				fv.Set(reflect.Append(fv, reflect.Zero(f.T.Elem.typ()), reflect.Zero(f.T.Elem.typ())))
			}
		}
	}
	initial := reflect.New(t).Elem()
	initial.Set(target.Elem())
	arg := target
	for k := 0; k < nptr; k++ {
		pp := reflect.New(arg.Type())
		pp.Elem().Set(arg)
		arg = pp
	}
	var want reflect.Value
	var wantErr error
	switch base.Kind {
	case "struct":
		if len(ns) != 1 {
			wantErr = errExpectErr
		} else {
			want, wantErr = expected(base, ns[0], initial)
		}
	case "slice":
		want, wantErr = convert(base, res)
	}
	// what the caller's pointers point to, before the call
	type owned struct {
		field int
		ptr   reflect.Value
		was   reflect.Value
	}
	var owns []owned
	if base.Kind == "struct" && c.Prefill {
		for i, f := range base.Fields {
			if f.Tag != "" && f.T.Kind == "ptr" {
				ptr := target.Elem().Field(i)
				was := reflect.New(ptr.Type().Elem()).Elem()
				was.Set(ptr.Elem())
				if was.Kind() == reflect.Pointer && !was.IsNil() {
					continue // deeper chains: only the outermost pointee is tracked
				}
				owns = append(owns, owned{i, ptr.Elem().Addr(), was})
			}
		}
	}
	if len(ns) > 0 && len(c.Select)%2 == 0 {
		// distinct struct types that share their name and field names: each is filled from its OWN tags
		for k := 0; k < 3; k++ {
			if err := checkNamedTarget(ns[0], k+len(ns)); err != nil {
				return err
			}
		}
	}
	gotErr := safeUnmarshal(res, arg.Interface(), c19Bindings(c.Bind)...)
	st.Eval(1)
	if pe, ok := gotErr.(*panicError); ok {
		return fmt.Errorf("Unmarshal into %v panicked: %v", arg.Type(), pe.v)
	}
	if gotErr == nil {
		for _, o := range owns {
			if err := deepEq(o.ptr.Elem(), o.was, "caller's value"); err != nil {
				return fmt.Errorf("Unmarshal(%s) into %v wrote through the pointer the field %s held before the call instead of allocating (pointer fields are freshly allocated): %v", c.Select, arg.Type(), base.Fields[o.field].Name, err)
			}
		}
	}
	if wantErr == errUnspecified {
		st.Discard("numeric-result-outside-field-range")
		return nil
	}
	if wantErr != nil {
		if gotErr == nil {
			return fmt.Errorf("Unmarshal into %v returned nil although a tag result has the wrong shape", arg.Type())
		}
		return nil
	}
	if gotErr != nil {
		return fmt.Errorf("Unmarshal into %v failed: %v", arg.Type(), gotErr)
	}
	if err := deepEq(target.Elem(), want, "target"); err != nil {
		return fmt.Errorf("Unmarshal(%s) into %v: %v", c.Select, arg.Type(), err)
	}
	return nil
}

// ---- generation ----

var intTags = []string{"count(*)", "count(node())", "string-length()", "7", "2.7", "count(@*)", "position()", "@n", "a[1]", "string-length(name())", "last()", "position() + last()",
	"200", "40000", "3000000000", "10000000000000000000", "18446744073709549568", "127", "255", "65535", "2147483647", "9007199254740993"}
var signedTags = []string{"-3", "0 - count(*)", "-2.7"}
var strTags = []string{"name()", ".", "@id", "normalize-space()", "concat(name(), '-', @id)", "a", "'lit'", "string(*[1])", "..", "text()",
	// tags that use the bindings given to Unmarshal (an error without them)
	"$s", "probe()", "u:up(name())", "concat($s, '-', $n)", "u:up()", "string($n + count(*))", "name(p:*)", "p:a", "string(count(.//p:*))", "@p:id", "name(*)", "*"}
var boolTags = []string{"a", "@id", "true()", "false()", "count(*) > 1", "not(*)", "'x'", "0", "'0'", "''", "number('x')", "string(@n)", "' '", "0 div 0", "-0", "'false'", "0.0", "string(nosuch)"}
var floatTags = []string{"1.5", "count(*) div 2", "number(@id)", "@n", "-0.25", "1 div 0"}
var nodeTags = []string{"*", "a", "b", ".", "*[1]", "..", "a | b", "*/*", "nosuch", "@*", "text()", "ancestor-or-self::*", "p:*", "p:a", "*:a", "@id", "@p:*"}

func pick(t *rapid.T, label string, pool []string) string {
	return pool[rapid.IntRange(0, len(pool)-1).Draw(t, label)]
}

func genField(t *rapid.T, depth int, idx int) fdesc {
	f := fdesc{Name: fmt.Sprintf("F%d", idx)}
	if rapid.IntRange(0, 7).Draw(t, "exoticFieldName") == 0 {
		// exported names need not be ASCII (upper-case letters of two, three and four bytes)
		f.Name = fmt.Sprintf("%s%d", []string{"É", "Ω", "Ảnh", "Ṣize", "\uff2eame", "Ꭰ", "\U0001d400"}[rapid.IntRange(0, 6).Draw(t, "fieldName")], idx)
	}
	k := rapid.IntRange(0, 11).Draw(t, "fieldKind")
	if depth <= 0 && k >= 8 {
		k = k % 8
	}
	switch {
	case k <= 1:
		f.T, f.Tag = &tdesc{Kind: "string"}, pick(t, "strTag", strTags)
	case k == 2:
		f.T, f.Tag = &tdesc{Kind: "bool"}, pick(t, "boolTag", boolTags)
	case k == 3:
		kind := []string{"int", "int8", "int16", "int32", "int64"}[rapid.IntRange(0, 4).Draw(t, "intKind")]
		f.T, f.Tag = &tdesc{Kind: kind}, pick(t, "intTag", append(append([]string{}, intTags...), signedTags...))
	case k == 4:
		kind := []string{"uint", "uint8", "uint16", "uint32", "uint64"}[rapid.IntRange(0, 4).Draw(t, "uintKind")]
		f.T, f.Tag = &tdesc{Kind: kind}, pick(t, "uintTag", append(append([]string{}, intTags[:7]...), intTags[12:]...))
	case k == 5:
		kind := []string{"float32", "float64"}[rapid.IntRange(0, 1).Draw(t, "floatKind")]
		f.T, f.Tag = &tdesc{Kind: kind}, pick(t, "floatTag", floatTags)
	case k == 6:
		// untagged field with a sentinel; also untagged structs (embedded or named) whose own
		// fields carry tags: untagged means untouched, all the way down
		switch u := rapid.IntRange(0, 6).Draw(t, "untaggedKind"); {
		case u <= 3:
			f.T = &tdesc{Kind: []string{"string", "int", "bool", "float64"}[u]}
		default:
			f.T = &tdesc{Kind: "struct", Fields: []fdesc{{Name: "ID", Tag: pick(t, "strTag", strTags), T: &tdesc{Kind: "string"}}, {Name: "Keep", T: &tdesc{Kind: "string"}},
				{Name: "N", Tag: "count(*)", T: &tdesc{Kind: "int"}}}}
			if u == 6 {
				f.Embedded = true
			} else if u == 5 {
				f.T = &tdesc{Kind: "ptr", Elem: f.T}
			}
		}
	case k == 7:
		// slice of scalars
		ek := []string{"string", "int", "bool", "float64", "uint8"}[rapid.IntRange(0, 4).Draw(t, "sliceElem")]
		f.T, f.Tag = &tdesc{Kind: "slice", Elem: &tdesc{Kind: ek}}, pick(t, "nodeTag", nodeTags)
		if ek == "int" || ek == "uint8" {
			f.Tag = pick(t, "numNodeTag", []string{"*/@n", "@n", "nosuch", "a/@n"})
		}
		if rapid.IntRange(0, 5).Draw(t, "scalarForSlice") == 0 {
			// a result of the wrong shape for a slice: an error, never an empty slice
			f.Tag = pick(t, "scalarTag", []string{"count(*)", "'x'", "true()", "string(a)", "a = 1", "sum(*/@n)", "name()", "''", "0"})
		}
	case k == 8, k == 9:
		f.T, f.Tag = genStruct(t, depth-1), pick(t, "structTag", []string{"*[1]", ".", "a[1]", "..", "*", "nosuch", "b[1]"})
	default:
		f.T, f.Tag = &tdesc{Kind: "slice", Elem: genStruct(t, depth-1)}, pick(t, "nodeTag", nodeTags)
		if rapid.IntRange(0, 7).Draw(t, "scalarForStructSlice") == 0 {
			f.Tag = pick(t, "scalarTag", []string{"count(*)", "'x'", "true()", "string(a)", "''"})
		}
		if rapid.Bool().Draw(t, "slicePtrElem") {
			f.T.Elem = &tdesc{Kind: "ptr", Elem: f.T.Elem}
		}
	}
	if f.Tag != "" {
		for i, n := 0, rapid.IntRange(0, 5).Draw(t, "ptrDepth")-2; i < n; i++ {
			f.T = &tdesc{Kind: "ptr", Elem: f.T}
		}
	}
	return f
}

func genStruct(t *rapid.T, depth int) *tdesc {
	d := &tdesc{Kind: "struct"}
	for i, n := 0, rapid.IntRange(1, 5).Draw(t, "nFields"); i < n; i++ {
		d.Fields = append(d.Fields, genField(t, depth, i))
	}
	return d
}

func shapeOf(d *tdesc) (s string, interesting bool) {
	switch d.Kind {
	case "ptr":
		in, _ := shapeOf(d.Elem)
		return "*" + in, true
	case "slice":
		in, _ := shapeOf(d.Elem)
		return "[]" + in, d.Elem.Kind == "struct" || d.Elem.Kind == "ptr"
	case "struct":
		s = "{"
		for _, f := range d.Fields {
			in, i := shapeOf(f.T)
			if f.Tag == "" {
				in = "untagged " + in
			}
			s += in + ";"
			interesting = interesting || i || f.T.Kind == "struct"
		}
		return s + "}", interesting
	}
	return d.Kind, false
}

func c19Doc() xmodel.GenCfg {
	// the document declares p and q itself (for urn:x / urn:y in either assignment): tags resolve prefixes through
	// the bindings given to Unmarshal only, and an unprefixed name in a tag means "no namespace"
	return xmodel.GenCfg{MaxDepth: 4, MaxKids: 4, Stress: true, Names: []string{"a", "b", "a", "c"}, Values: []string{"1", "2", "3", "12", "x", " y ", "2.5", ""}}
}

// numeric attributes n on elements keep integer tags in range
func addNAttrs(t *rapid.T, ev []xmodel.Event) []xmodel.Event {
	var out []xmodel.Event
	for _, e := range ev {
		out = append(out, e)
		if e.K == "S" && rapid.IntRange(0, 2).Draw(t, "nAttr") != 0 {
			out = append(out, xmodel.Event{K: "A", Local: "n", Value: []string{"0", "1", "5", "42", "100", "7.9"}[rapid.IntRange(0, 5).Draw(t, "nVal")]})
		}
	}
	return out
}

type unexportedTagged struct {
	hidden string `xsel:"."` //nolint
	Shown  string `xsel:"name()"`
}

type c19inner struct {
	A string `xsel:"name()"`
}

type unexportedStructField struct {
	Shown  string   `xsel:"name()"`
	hidden c19inner `xsel:"."` //nolint
}

type unexportedSliceField struct {
	hidden []string `xsel:"*"` //nolint
}

type unexportedPtrField struct {
	hidden *c19inner `xsel:"."` //nolint
}

type unexportedEmbedded struct {
	c19inner `xsel:"."`
}

type c19Cplx complex128

type complexField struct {
	C complex128 `xsel:"count(*)"`
}

type namedComplexPtrField struct {
	C **c19Cplx `xsel:"1.5"`
}

type uintptrField struct {
	U uintptr `xsel:"count(*)"`
}

type unsafePtrField struct {
	P unsafe.Pointer `xsel:"count(*)"`
}

type funcField struct {
	F func() `xsel:"."`
}

type chanField struct {
	C chan int `xsel:"."`
}

type ifaceField struct {
	Any any `xsel:"."`
}

type mapField struct {
	M map[string]string `xsel:"*"`
}

type arrayField struct {
	A [2]string `xsel:"*"`
}

var c19BadKinds = []string{"nil", "non-pointer struct", "nil pointer", "pointer to nil pointer", "map", "array", "chan", "func", "2-D slice", "unexported tagged field", "interface field", "map field", "array field", "int", "string",
	"pointer to nil slice pointer", "pointer to pointer to nil struct pointer", "pointer to nil pointer to slice of structs",
	"unexported tagged struct field", "unexported tagged slice field", "unexported tagged pointer field", "embedded unexported struct with a tag",
	"complex field", "slice of complex", "uintptr field", "unsafe pointer field", "func field", "chan field", "slice of maps", "named complex field behind a pointer"}

type c19BadCase struct {
	Events []xmodel.Event `json:"events"`
	Select string         `json:"select"`
	Target string         `json:"target"`
}

func checkC19Bad(c *c19BadCase) error {
	p, err := prepareDoc(c.Events)
	if err != nil {
		st.Discard("document-not-mirrored")
		return nil
	}
	g, err := buildExpr(c.Select)
	if err != nil {
		return fmt.Errorf("bad case: %v", err)
	}
	res, err := safeExec(p.root, g)
	if err != nil {
		return fmt.Errorf("bad case: %v", err)
	}
	if ns, ok := res.(xsel.NodeSet); ok && len(ns) > 0 {
		// supported targets too: struct types that share their name and have different numbers of fields
		for k := 0; k < len(c13Targets); k++ {
			if err := checkNamedTarget(ns[0], k); err != nil && strings.Contains(err.Error(), "panic:") {
				return err
			}
		}
	}
	type S struct {
		A string `xsel:"."`
	}
	var nilPtr *S
	var target any
	switch c.Target {
	case "nil":
		target = nil
	case "non-pointer struct":
		target = S{}
	case "nil pointer":
		target = nilPtr
	case "pointer to nil pointer":
		target = &nilPtr
	case "map":
		target = &map[string]string{}
	case "array":
		target = &[2]string{}
	case "chan":
		ch := make(chan int)
		target = &ch
	case "func":
		f := func() {}
		target = &f
	case "2-D slice":
		target = &[][]string{}
	case "unexported tagged field":
		target = &unexportedTagged{}
	case "unexported tagged struct field":
		target = &unexportedStructField{}
	case "unexported tagged slice field":
		target = &unexportedSliceField{}
	case "unexported tagged pointer field":
		target = &unexportedPtrField{}
	case "embedded unexported struct with a tag":
		target = &unexportedEmbedded{}
	case "complex field":
		target = &complexField{}
	case "named complex field behind a pointer":
		target = &namedComplexPtrField{}
	case "slice of complex":
		target = &[]complex64{}
	case "uintptr field":
		target = &uintptrField{}
	case "unsafe pointer field":
		target = &unsafePtrField{}
	case "func field":
		target = &funcField{}
	case "chan field":
		target = &chanField{}
	case "slice of maps":
		target = &[]map[string]string{}
	case "interface field":
		target = &ifaceField{}
	case "map field":
		target = &mapField{}
	case "array field":
		target = &arrayField{}
	case "pointer to nil slice pointer":
		var ps *[]string
		target = &ps
	case "pointer to pointer to nil struct pointer":
		pp := &nilPtr
		target = &pp
	case "pointer to nil pointer to slice of structs":
		var ps *[]S
		target = &ps
	case "int":
		i := 0
		target = &i
	case "string":
		target = "s"
	default:
		return fmt.Errorf("bad case: unknown target %q", c.Target)
	}
	gotErr := safeUnmarshal(res, target)
	st.Eval(1)
	if pe, ok := gotErr.(*panicError); ok {
		return fmt.Errorf("Unmarshal into %s panicked: %v", c.Target, pe.v)
	}
	ns, _ := res.(xsel.NodeSet)
	if gotErr == nil {
		// a slice target with no node to convert never reaches the element
		// type; only targets that were actually asked to hold something must fail
		if (c.Target == "2-D slice" || c.Target == "slice of complex" || c.Target == "slice of maps") && len(ns) == 0 {
			return nil
		}
		return fmt.Errorf("Unmarshal into %s returned a nil error", c.Target)
	}
	return nil
}

func TestC19(t *testing.T) {
	runWitnesses(t, "C19")
	runProp(t, "fill", 40000, 300000, func(t *rapid.T) {
		ev := addNAttrs(t, xmodel.Gen(t, c19Doc()))
		c := &c19Case{Events: ev}
		switch rapid.IntRange(0, 3).Draw(t, "targetKind") {
		case 0, 1:
			c.Target = genStruct(t, 2)
			c.Select = pick(t, "select1", []string{"/*", "//a[1]", "(//*)[2]", "/*/*[1]", "(//*)[last()]", "//a", "/nosuch"})
		case 2:
			c.Target = &tdesc{Kind: "slice", Elem: genStruct(t, 1)}
			c.Select = pick(t, "selectN", []string{"//a", "//*", "/*/*", "//b", "/nosuch", "//a/.."})
			if rapid.Bool().Draw(t, "ptrElems") {
				c.Target.Elem = &tdesc{Kind: "ptr", Elem: c.Target.Elem}
			}
		default:
			c.Target = &tdesc{Kind: "slice", Elem: &tdesc{Kind: []string{"string", "int", "bool", "float64"}[rapid.IntRange(0, 3).Draw(t, "elemKind")]}}
			c.Select = pick(t, "selectS", []string{"//@n", "//a/@n", "//*", "//text()", "/nosuch", "//a/ancestor::*"})
		}
		for i, n := 0, rapid.IntRange(0, 2).Draw(t, "targetPtrDepth"); i < n; i++ {
			c.Target = &tdesc{Kind: "ptr", Elem: c.Target}
		}
		c.Prepopulate = rapid.IntRange(0, 3).Draw(t, "prepopulate") == 0
		c.Prefill = rapid.IntRange(0, 2).Draw(t, "prefill") == 0
		c.Bind = []int{0, 0, 1, 2, 4, 7, 7, 7}[rapid.IntRange(0, 7).Draw(t, "bind")]
		st.Class(fmt.Sprintf("bindings=%d", c.Bind))
		shape, interesting := shapeOf(c.Target)
		st.Class("target=" + c.Target.Kind)
		if interesting {
			st.NonTrivial(shape + c.Select)
			if len(shape) < 200 {
				st.Sample(shape+c.Select, map[string]any{"target": c.Target, "select": c.Select, "shape": shape})
			}
		}
		_ = xast.Num
		c19Fill.run(t, c)
	})
	runProp(t, "unsupported", 16000, 64000, func(t *rapid.T) {
		kinds := c19BadKinds
		c := &c19BadCase{Events: xmodel.Gen(t, c19Doc()), Target: kinds[rapid.IntRange(0, len(kinds)-1).Draw(t, "kind")],
			Select: pick(t, "select", []string{"/*", "//a", "/nosuch", "//*", "1", "'s'", "true()"})}
		st.Class("unsupported " + c.Target)
		st.NonTrivial(c.Target + "|" + c.Select)
		st.Sample(c.Target+c.Select, map[string]any{"target": c.Target, "select": c.Select})
		c19Bad.run(t, c)
	})
}
