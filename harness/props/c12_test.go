package props

import (
	"fmt"
	"strings"
	"testing"

	"pgregory.net/rapid"

	"verif/xast"
	"verif/xmodel"
	"verif/xref"
)

// C12 - node functions: name, local-name, namespace-uri, count, lang.

var c12Fn = reg("C12", "c12-fn", checkEvalCase)

var langTags = []string{"en", "EN", "en-US", "en-us", "en-GB", "de", "de-CH-1996", "zh", "zh-TW", "zh-Hant-TW", "x-private", "eng", "e", "", "fr-CA", "i-klingon", "en-", "zh-Hant", "de-CH", "en-GB-oxendict", "en-GB-", "zh-Hant-T", "en_US", "en_us", "pt_BR", "pt-BR", "pt", "en.US", "en US", "en--US",
	// only ASCII case is ignored: these pairs differ in the case of non-ASCII letters (or in a
	// character whose lower-case form is an ASCII letter) and do not match each other
	"en-x-MÜNCHEN", "en-x-münchen", "ΕΛ-GR", "ελ", "\u212a", "k", "K", "tr-İ", "tr-i"}

// langDoc draws a document whose elements carry xml:lang on various levels,
// overridden and reset to "" deeper down.
func langDoc(t *rapid.T) []xmodel.Event {
	var ev []xmodel.Event
	var build func(depth int)
	build = func(depth int) {
		ev = append(ev, xmodel.Event{K: "S", Local: []string{"a", "b"}[rapid.IntRange(0, 1).Draw(t, "name")]})
		if depth == 1 {
			ev = append(ev, xmodel.Event{K: "N", Local: "xml", Value: xmodel.XMLNS})
		}
		switch rapid.IntRange(0, 4).Draw(t, "langAttr") {
		case 0, 1:
			ev = append(ev, xmodel.Event{K: "A", Space: xmodel.XMLNS, Local: "lang", Prefix: "xml", Value: langTags[rapid.IntRange(0, len(langTags)-1).Draw(t, "tag")]})
		case 2:
			// a 'lang' attribute in no namespace must be ignored
			ev = append(ev, xmodel.Event{K: "A", Local: "lang", Value: "en"})
		case 3:
			// decoys with the same local name on both sides of the real one
			ev = append(ev, xmodel.Event{K: "A", Local: "lang", Value: "en"})
			ev = append(ev, xmodel.Event{K: "A", Space: xmodel.XMLNS, Local: "lang", Prefix: "xml", Value: langTags[rapid.IntRange(0, len(langTags)-1).Draw(t, "tag")]})
			ev = append(ev, xmodel.Event{K: "A", Space: "urn:other", Local: "lang", Prefix: "o", Value: "de"})
		}
		if rapid.Bool().Draw(t, "idAttr") {
			ev = append(ev, xmodel.Event{K: "A", Local: "id", Value: "1"})
		}
		n := rapid.IntRange(0, 3).Draw(t, "kids")
		for i := 0; i < n && depth < 4; i++ {
			switch rapid.IntRange(0, 4).Draw(t, "kid") {
			case 0:
				ev = append(ev, xmodel.Event{K: "T", Value: "t"})
			case 1:
				ev = append(ev, xmodel.Event{K: "C", Value: "c"})
			case 2:
				ev = append(ev, xmodel.Event{K: "P", Local: "pi", Value: "d"})
			default:
				build(depth + 1)
			}
		}
		ev = append(ev, xmodel.Event{K: "E"})
	}
	build(1)
	return ev
}

func langRelation(decl, q string) string {
	d, l := strings.ToLower(decl), strings.ToLower(q)
	switch {
	case d == l && asciiLowerStr(decl) != asciiLowerStr(q):
		return "equal-only-under-unicode-case-folding"
	case d == l && decl != q:
		return "equal-ignoring-case"
	case d == l:
		return "equal"
	case strings.HasPrefix(d, l+"-"):
		return "prefix-with-hyphen"
	case strings.HasPrefix(d, l) && l != "":
		return "prefix-without-hyphen"
	case l == "":
		return "empty-range"
	}
	return "unrelated"
}

func asciiLowerStr(s string) string {
	return strings.Map(func(r rune) rune {
		if r >= 'A' && r <= 'Z' {
			return r + 32
		}
		return r
	}, s)
}

func nearestLang(n *xmodel.Node) (string, bool) {
	for m := n; m != nil; m = m.Parent {
		if m.Kind != xmodel.Elem {
			continue
		}
		for _, a := range m.Attrs {
			if a.Space == xmodel.XMLNS && a.Local == "lang" {
				return a.Value, true
			}
		}
	}
	return "", false
}

func TestC12(t *testing.T) {
	runWitnesses(t, "C12")
	runProp(t, "names", 120000, 1000000, func(t *rapid.T) {
		c, p := genDocCase(t, caseOpts{cfg: xmodel.GenCfg{MaxDepth: 3, MaxKids: 3, MaxTop: 2, Forest: true, Stress: true}, anyCtx: true, nodeVars: true},
			func(g *xast.G, p *prepared) *xast.Expr {
				fn := []string{"name", "local-name", "namespace-uri"}[rapid.IntRange(0, 2).Draw(g.T, "fn")]
				switch rapid.IntRange(0, 5).Draw(g.T, "argKind") {
				case 0, 1:
					return xast.Call(fn)
				case 2:
					return xast.Call(fn, xast.Var("v"))
				case 3:
					// reverse-axis argument: first node in document order is last in the slice
					ax := []string{"ancestor", "ancestor-or-self", "preceding", "preceding-sibling"}[rapid.IntRange(0, 3).Draw(g.T, "rev")]
					return xast.Call(fn, xast.Path(false, xast.S(ax, xast.NodeT())))
				case 4:
					return xast.Call(fn, g.NodeSet(1, true))
				}
				if rapid.Bool().Draw(g.T, "countNonNodeSet") {
					return xast.Call("count", g.String(0)) // must be an error
				}
				return xast.Call("count", g.NodeSet(1, true))
			}, drawStyle(t))
		if c == nil {
			return
		}
		out, why, err := evalPrepared(c, p)
		if out == discarded {
			st.Discard(why)
			return
		}
		st.Eval(1)
		ctx := p.doc.Resolve(c.Ctx)
		cls := c.Expr.S + " ctx=" + ctx.Kind.String()
		st.Class(cls)
		if ctx.Kind != xmodel.Elem || ctx.Space != "" || (lastRefErr == nil && lastRef.T == xref.TString && strings.HasPrefix(lastRef.S, "{")) || lastRefErr != nil {
			key := cls + "|" + c.Text + "|" + fmt.Sprint(lastRef.Describe(), lastRefErr != nil)
			st.NonTrivial(key)
			if len(c.Events) <= 24 {
				st.Sample(key, map[string]any{"events": eventStrings(c.Events), "ctx": c.Ctx + " " + ctx.Describe(), "expr": c.Text, "expected": lastRef.Describe(), "error": lastRefErr != nil})
			}
		}
		if err != nil {
			recordFailure("C12", "c12-fn", c, err.Error())
			t.Fatalf("C12/names: %v", err)
		}
	})
	runProp(t, "lang", 120000, 1000000, func(t *rapid.T) {
		ev := langDoc(t)
		if rapid.IntRange(0, 999).Draw(t, "deepLang") == 0 {
			// the nearest xml:lang may be hundreds of levels up
			ev = nil
			depth := []int{200, 257, 300, 520}[rapid.IntRange(0, 3).Draw(t, "langDepth")]
			for i := 0; i < depth; i++ {
				ev = append(ev, xmodel.Event{K: "S", Local: "a"})
				if i == 0 {
					ev = append(ev, xmodel.Event{K: "N", Local: "xml", Value: xmodel.XMLNS}, xmodel.Event{K: "A", Space: xmodel.XMLNS, Local: "lang", Prefix: "xml", Value: "en-GB"})
				}
			}
			ev = append(ev, xmodel.Event{K: "A", Local: "id", Value: "1"}, xmodel.Event{K: "T", Value: "t"})
			for i := 0; i < depth; i++ {
				ev = append(ev, xmodel.Event{K: "E"})
			}
			st.Class("lang from hundreds of levels below")
		}
		p, err := prepareDoc(ev)
		if err != nil {
			st.Discard("document-not-mirrored")
			return
		}
		q := langTags[rapid.IntRange(0, len(langTags)-1).Draw(t, "query")]
		expr := xast.Call("lang", xast.Str(q))
		text := xast.RenderMinimal(expr)
		nodes := p.doc.All
		if len(nodes) > 150 {
			nodes = append([]*xmodel.Node{nodes[1], nodes[len(nodes)/2]}, nodes[len(nodes)-4:]...) // a few context nodes of a very deep document
		}
		for _, n := range nodes {
			c := &evalCase{Events: ev, Ctx: n.Ref(), Expr: expr, Text: text}
			_, _, err := evalPrepared(c, p)
			st.Eval(1)
			decl, has := nearestLang(n)
			rel := "no-xml:lang"
			if has {
				rel = langRelation(decl, q)
			}
			st.Class("lang " + rel)
			key := rel + "|" + decl + "|" + q + "|" + n.Kind.String()
			st.NonTrivial(key)
			if len(ev) <= 20 {
				st.Sample(key, map[string]any{"events": eventStrings(ev), "ctx": n.Ref(), "expr": text, "nearest xml:lang": decl, "expected": lastRef.Describe()})
			}
			if err != nil {
				recordFailure("C12", "c12-fn", c, err.Error())
				t.Fatalf("C12/lang: %v", err)
			}
		}
	})
}
