package props

import (
	"fmt"
	"strings"
	"testing"

	"github.com/ChrisTrenkamp/xsel"
	"github.com/ChrisTrenkamp/xsel/store"
	"golang.org/x/net/html"
	"pgregory.net/rapid"

	"verif/xmodel"
)

// C17 - ReadHtml mirrors the HTML5 parse tree without namespaces.

type c17Case struct {
	Text   string `json:"text"`
	Before string `json:"before,omitempty"` // a document given to ReadHtml just before (its outcome is not judged here)
}

var c17Tree = reg("C17", "c17-tree", checkC17)

var htmlTags = []string{"p", "div", "span", "a", "b", "i", "ul", "li", "table", "tr", "td", "th", "caption", "select", "option",
	"template", "script", "style", "textarea", "title", "br", "img", "input", "hr", "svg", "math", "foreignObject", "desc", "html", "head", "body",
	"form", "h1", "nobr", "tbody", "x:y", "svg:rect", "frameset", "noscript", "button", "dd", "mi", "annotation-xml", "x:"}
var htmlAttrs = []string{"id", "class", "xmlns", "xmlns:x", "x:y", "xlink:href", "xml:lang", "xmlns:xlink", "href", "id", "a:b", "definitionurl", "encoding", "xmlnsfoo", "xmlns-x", "xmlns_id", "xml", "xmlnsx:y", ":x", "x:", "@click", "#ref", "[(ngmodel)]"}
var htmlTexts = []string{"text", " ", "x < y", "&amp;", "&lt;b&gt;", "é", "\n", "a b", "]]>", "&#x41;",
	// carriage returns: literal ones are normalised by the tokenizer, referenced ones are data
	"a&#13;\nb", "&#xD;&#10;", "a&#13;b", "\r\n", "a\rb", "&#13;", "&#0;", "\x00", "&nbsp;&copy", "&notit;", "&amp", "\t", "\f", "&#128;", "&#x110000;", "𝄞", "\xff"}

func genSoup(t *rapid.T) string {
	var sb strings.Builder
	if rapid.IntRange(0, 9).Draw(t, "leadingSpace") == 0 {
		// any amount of white space may come before the doctype
		sb.WriteString(strings.Repeat([]string{" ", "\n", "\t \r\n", "\f"}[rapid.IntRange(0, 3).Draw(t, "spaceUnit")], []int{1, 7, 100, 511, 512, 600, 1100, 5000}[rapid.IntRange(0, 7).Draw(t, "spaceLen")]))
	}
	sb.WriteString([]string{"<!DOCTYPE html>", "<!doctype html>", "<!DOCTYPE html PUBLIC \"-//W3C//DTD XHTML 1.0 Strict//EN\" \"x\">", "<!DOCTYPE html >\n"}[rapid.IntRange(0, 3).Draw(t, "doctype")])
	n := rapid.IntRange(0, 25).Draw(t, "soupLen")
	var open []string
	for i := 0; i < n; i++ {
		switch k := rapid.IntRange(0, 11).Draw(t, "soupKind"); {
		case k <= 4:
			tag := htmlTags[rapid.IntRange(0, len(htmlTags)-1).Draw(t, "tag")]
			sb.WriteString("<" + tag)
			for j, na := 0, rapid.IntRange(0, 3).Draw(t, "nattrs")-1; j < na; j++ {
				a := htmlAttrs[rapid.IntRange(0, len(htmlAttrs)-1).Draw(t, "attr")]
				switch rapid.IntRange(0, 3).Draw(t, "attrForm") {
				case 3:
					// values are data: line breaks, tabs and references stay as they are
					sb.WriteString(" " + a + "=\"" + []string{"a\nb", "a\tb", "a&#10;b", "a\r\nb", "a&#13;b", " x ", "", "a&amp;b", "&lt;", "é", "a  b", "\n"}[rapid.IntRange(0, 11).Draw(t, "attrVal")] + "\"")
				case 0:
					sb.WriteString(" " + a + "=\"v" + fmt.Sprint(j) + "\"")
				case 1:
					sb.WriteString(" " + a + "=v")
				default:
					sb.WriteString(" " + a)
				}
			}
			if rapid.IntRange(0, 5).Draw(t, "selfClose") == 0 {
				sb.WriteString("/>")
			} else {
				sb.WriteString(">")
				open = append(open, tag)
			}
		case k <= 6:
			if len(open) > 0 && rapid.IntRange(0, 3).Draw(t, "properClose") != 0 {
				sb.WriteString("</" + open[len(open)-1] + ">")
				open = open[:len(open)-1]
			} else {
				// stray or mis-nested end tag
				sb.WriteString("</" + htmlTags[rapid.IntRange(0, len(htmlTags)-1).Draw(t, "strayTag")] + ">")
			}
		case k <= 9:
			sb.WriteString(htmlTexts[rapid.IntRange(0, len(htmlTexts)-1).Draw(t, "text")])
		case k == 10:
			sb.WriteString("<!--" + []string{"c", "", " x ", "-", "a--b"}[rapid.IntRange(0, 4).Draw(t, "comment")] + "-->")
		default:
			sb.WriteString([]string{"</body>", "</html>", "<![CDATA[x]]>", "<?pi x?>", "<!x>"}[rapid.IntRange(0, 4).Draw(t, "special")])
		}
	}
	return sb.String()
}

// htmlEvents is the harness's own plain recursion over html.Parse's DOM.
func htmlEvents(n *html.Node, out *[]xmodel.Event) {
	local := func(s string) string {
		if i := strings.IndexByte(s, ':'); i >= 0 {
			return s[i+1:]
		}
		return s
	}
	switch n.Type {
	case html.ElementNode:
		*out = append(*out, xmodel.Event{K: "S", Local: local(n.Data)})
		for _, a := range n.Attr {
			if a.Key == "xmlns" || strings.HasPrefix(a.Key, "xmlns:") || a.Namespace == "xmlns" {
				continue
			}
			*out = append(*out, xmodel.Event{K: "A", Local: local(a.Key), Value: a.Val})
		}
		for c := n.FirstChild; c != nil; c = c.NextSibling {
			htmlEvents(c, out)
		}
		*out = append(*out, xmodel.Event{K: "E"})
	case html.TextNode:
		*out = append(*out, xmodel.Event{K: "T", Value: n.Data})
	case html.CommentNode:
		*out = append(*out, xmodel.Event{K: "C", Value: n.Data})
	case html.DocumentNode:
		for c := n.FirstChild; c != nil; c = c.NextSibling {
			htmlEvents(c, out)
		}
	}
}

func multiColon(n *html.Node) bool {
	if n.Type == html.ElementNode {
		if strings.Count(n.Data, ":") > 1 {
			return true
		}
		for _, a := range n.Attr {
			if strings.Count(a.Key, ":") > 1 {
				return true
			}
		}
	}
	for c := n.FirstChild; c != nil; c = c.NextSibling {
		if multiColon(c) {
			return true
		}
	}
	return false
}

func safeReadHTML(text string) (c store.Cursor, err error) {
	defer func() {
		if r := recover(); r != nil {
			err = &panicError{r}
		}
	}()
	return xsel.ReadHtml(readerFor([]byte(text)))
}

func checkC17(c *c17Case) error {
	dom, err := html.Parse(strings.NewReader(c.Text))
	if err != nil {
		return nil // html.Parse only fails on reader errors
	}
	if dom.FirstChild == nil || dom.FirstChild.Type != html.DoctypeNode {
		st.Discard("no-leading-doctype")
		return nil
	}
	if multiColon(dom) {
		st.Discard("name-with-several-colons")
		return nil
	}
	var ev []xmodel.Event
	htmlEvents(dom, &ev)
	model := xmodel.Build(ev)
	if c.Before != "" {
		safeReadHTML(c.Before)
	}
	cur, err := safeReadHTML(c.Text)
	if pe, ok := err.(*panicError); ok {
		return fmt.Errorf("ReadHtml(%q) panicked: %v", c.Text, pe.v)
	}
	if err != nil {
		return fmt.Errorf("ReadHtml(%q) failed: %v", c.Text, err)
	}
	if cur == nil {
		return fmt.Errorf("ReadHtml(%q) returned nil, nil", c.Text)
	}
	if _, err := xmodel.Locate(model, cur); err != nil {
		return fmt.Errorf("ReadHtml(%q): tree differs from html.Parse's DOM: %v", c.Text, err)
	}
	return cursorContract(cur)
}

func c17Features(dom *html.Node) (nodes int, feats []string) {
	seen := map[string]bool{}
	add := func(f string) {
		if !seen[f] {
			seen[f] = true
			feats = append(feats, f)
		}
	}
	var walk func(n *html.Node, depth int)
	walk = func(n *html.Node, depth int) {
		nodes++
		if n.Type == html.ElementNode {
			if n.Namespace != "" {
				add("foreign-content")
			}
			if n.Data == "template" {
				add("template")
			}
			if n.Data == "tbody" || n.Data == "head" {
				add("implied-element")
			}
			if n.FirstChild == nil && n.NextSibling == nil && n.Parent != nil && n.Parent.Type == html.ElementNode {
				add("childless-last-child")
			}
		}
		if n.Type == html.CommentNode && n.Parent != nil && n.Parent.Type == html.DocumentNode {
			add("node-after-html")
		}
		if depth >= 3 && n.NextSibling != nil {
			add("sibling-after-deep-subtree")
		}
		for c := n.FirstChild; c != nil; c = c.NextSibling {
			walk(c, depth+1)
		}
	}
	walk(dom, 0)
	return
}

func TestC17(t *testing.T) {
	runWitnesses(t, "C17")
	runProp(t, "tree", 100000, 1000000, func(t *rapid.T) {
		c := &c17Case{Text: genSoup(t)}
		if rapid.IntRange(0, 3).Draw(t, "callBefore") == 0 {
			c.Before = []string{"no doctype <p>x", "", "<!DOCTYPE html><table><tr><td>x<table>", "<!DOCTYPE html><svg><foreignObject><p>", "\xff\xfe", "<!DOCTYPE html><template><td>"}[rapid.IntRange(0, 5).Draw(t, "before")]
			st.Class("after-another-call")
		}
		st.Eval(1)
		if dom, err := html.Parse(strings.NewReader(c.Text)); err == nil {
			n, feats := c17Features(dom)
			for _, f := range feats {
				st.Class(f)
			}
			if n >= 8 && len(feats) > 0 {
				st.NonTrivial(c.Text)
				if len(c.Text) <= 160 {
					st.Sample(c.Text, map[string]any{"html": c.Text, "features": feats})
				}
			}
		}
		c17Tree.run(t, c)
	})
}
