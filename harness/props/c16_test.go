package props

import (
	"encoding/json"
	"fmt"
	"math"
	"strconv"
	"strings"
	"testing"

	"github.com/ChrisTrenkamp/xsel"
	"github.com/ChrisTrenkamp/xsel/node"
	"github.com/ChrisTrenkamp/xsel/store"
	"pgregory.net/rapid"

	"verif/xmodel"
)

// C16 - ReadJson maps JSON to the documented #obj/#arr element tree.

type jval struct {
	K       string   `json:"k"` // obj arr str num true false null
	Keys    []string `json:"keys,omitempty"`
	Members []*jval  `json:"members,omitempty"`
	Items   []*jval  `json:"items,omitempty"`
	S       string   `json:"s,omitempty"`
	Num     string   `json:"num,omitempty"`
}

type c16Case struct {
	Values []*jval `json:"values"`           // top-level values
	Text   string  `json:"text"`             // the rendering given to ReadJson
	Before string  `json:"before,omitempty"` // a malformed text given to ReadJson just before (not judged here)
}

type c16BadCase struct {
	Text string `json:"text"`
	How  string `json:"how"`
}

var c16Map = reg("C16", "c16-map", checkC16)
var c16Bad = reg("C16", "c16-malformed", checkC16Bad)

var jsonKeys = []string{"a", "b", "a", "", "key with space", "<&>", "é", "#obj", "#arr", "x-y", "0", "a.b", "日本", "{", "}", "[", "]", ",", ":", "dc:title", "a:b", "xml:lang", "xmlns", "xmlns:p", "p:", ":q", "a:b:c", "@id", "text()", "*", "..", "\ufffd", "\ufeffk", "k\u0000"}
var jsonStrs = []string{"", "a", "AK", "x y", "é", "𝄞", "line\nbreak", "tab\t", "quote\"", "back\\slash", "</x>", "null", "true", "1", " ", "{", "}", "[", "]", ",", ":", "[]", "{}", "\ufffd", "a\ufffdb", "\ufeff", "\u2028", "\x7f", "\u0000x",
	// what a comment-stripping or string-skipping pre-pass trips over
	"C:\\", "\\", "\\\\", "a//b", "http://x/y", "src/*/testdata/*/in.json", "/* c */", "// c", "*/", "\\\"", "#", "\\n"}
var jsonNums = []string{"0", "-0", "1", "-1", "1.5", "1e3", "1E+3", "1e-7", "12345678901234567890", "0.1", "5e-324", "1.7976931348623157e308", "100", "1.0", "2.50", "3.14", "2.71828", "1e21", "123456789012345678", "0.000001", "-12.5e-3"}

func genJval(t *rapid.T, depth int) *jval {
	k := rapid.IntRange(0, 9).Draw(t, "jkind")
	if depth <= 0 && k <= 3 {
		k = 4 + k
	}
	switch {
	case k <= 1:
		v := &jval{K: "obj"}
		for i, n := 0, rapid.IntRange(0, 3+min(depth, 1)).Draw(t, "members"); i < n; i++ {
			v.Keys = append(v.Keys, jsonKeys[rapid.IntRange(0, len(jsonKeys)-1).Draw(t, "key")])
			v.Members = append(v.Members, genJval(t, depth-1))
		}
		return v
	case k <= 3:
		v := &jval{K: "arr"}
		for i, n := 0, rapid.IntRange(0, 4).Draw(t, "items"); i < n; i++ {
			v.Items = append(v.Items, genJval(t, depth-1))
		}
		return v
	case k <= 5:
		return &jval{K: "str", S: jsonStrs[rapid.IntRange(0, len(jsonStrs)-1).Draw(t, "str")]}
	case k <= 7:
		return &jval{K: "num", Num: jsonNums[rapid.IntRange(0, len(jsonNums)-1).Draw(t, "num")]}
	}
	return &jval{K: []string{"true", "false", "null"}[rapid.IntRange(0, 2).Draw(t, "lit")]}
}

func renderJSONString(t *rapid.T, s string) string {
	var sb strings.Builder
	sb.WriteByte('"')
	for _, r := range s {
		esc := rapid.IntRange(0, 5).Draw(t, "esc") == 0
		switch {
		case r == '"':
			sb.WriteString("\\\"")
		case r == '\\':
			sb.WriteString("\\\\")
		case r == '\n':
			sb.WriteString("\\n")
		case r == '\t':
			sb.WriteString("\\t")
		case r < 0x20:
			fmt.Fprintf(&sb, "\\u%04x", r)
		case r == '/' && esc:
			sb.WriteString("\\/")
		case esc && r < 0x10000:
			fmt.Fprintf(&sb, "\\u%04X", r)
		case esc:
			r -= 0x10000
			fmt.Fprintf(&sb, "\\u%04x\\u%04x", 0xD800+(r>>10), 0xDC00+(r&0x3FF))
		default:
			sb.WriteRune(r)
		}
	}
	sb.WriteByte('"')
	return sb.String()
}

func jws(t *rapid.T) string {
	return []string{"", "", " ", "\n", "\t", " \r\n "}[rapid.IntRange(0, 5).Draw(t, "jws")]
}

func renderJSON(t *rapid.T, v *jval, sb *strings.Builder) {
	switch v.K {
	case "obj":
		sb.WriteString("{" + jws(t))
		for i, m := range v.Members {
			if i > 0 {
				sb.WriteString("," + jws(t))
			}
			sb.WriteString(renderJSONString(t, v.Keys[i]) + jws(t) + ":" + jws(t))
			renderJSON(t, m, sb)
			sb.WriteString(jws(t))
		}
		sb.WriteString("}")
	case "arr":
		sb.WriteString("[" + jws(t))
		for i, m := range v.Items {
			if i > 0 {
				sb.WriteString("," + jws(t))
			}
			renderJSON(t, m, sb)
			sb.WriteString(jws(t))
		}
		sb.WriteString("]")
	case "str":
		sb.WriteString(renderJSONString(t, v.S))
	case "num":
		sb.WriteString(v.Num)
	default:
		sb.WriteString(v.K)
	}
}

// expectedEvents is the README's mapping, written directly from the value.
// Numbers get a placeholder text that the comparison treats specially.
const numMark = "\x00num:"

func jsonEvents(v *jval, out *[]xmodel.Event) {
	switch v.K {
	case "obj":
		*out = append(*out, xmodel.Event{K: "S", Local: "#obj"})
		for i, m := range v.Members {
			*out = append(*out, xmodel.Event{K: "S", Local: v.Keys[i]})
			jsonEvents(m, out)
			*out = append(*out, xmodel.Event{K: "E"})
		}
		*out = append(*out, xmodel.Event{K: "E"})
	case "arr":
		*out = append(*out, xmodel.Event{K: "S", Local: "#arr"})
		for _, m := range v.Items {
			jsonEvents(m, out)
		}
		*out = append(*out, xmodel.Event{K: "E"})
	case "str":
		*out = append(*out, xmodel.Event{K: "T", Value: v.S})
	case "num":
		*out = append(*out, xmodel.Event{K: "T", Value: numMark + v.Num})
	default:
		*out = append(*out, xmodel.Event{K: "T", Value: v.K})
	}
}

func sigDigits(s string) int {
	s = strings.TrimLeft(s, "-+")
	if i := strings.IndexAny(s, "eE"); i >= 0 {
		s = s[:i]
	}
	s = strings.Replace(s, ".", "", 1)
	s = strings.TrimLeft(s, "0")
	s = strings.TrimRight(s, "0")
	return len(s)
}

// numberTextOK: the text reads back to the same double and has the minimal
// number of significant digits.
func numberTextOK(text, numeral string) error {
	want, _ := strconv.ParseFloat(numeral, 64)
	got, err := strconv.ParseFloat(text, 64)
	if err != nil {
		return fmt.Errorf("number %s became the text %q, which is not a numeral", numeral, text)
	}
	if math.Float64bits(got) != math.Float64bits(want) {
		return fmt.Errorf("number %s became the text %q, which reads back as %v", numeral, text, got)
	}
	if sigDigits(text) > sigDigits(strconv.FormatFloat(want, 'e', -1, 64)) {
		return fmt.Errorf("number %s became the text %q, which is not the shortest numeral for that double", numeral, text)
	}
	return nil
}

// compareJSONTree walks model and cursor tree in parallel.
func compareJSONTree(m *xmodel.Node, c store.Cursor, path string) error {
	ch := c.Children()
	if len(ch) != len(m.Children) {
		var got []string
		for _, x := range ch {
			got = append(got, xmodel.DescribeCursor(x))
		}
		var want []string
		for _, x := range m.Children {
			want = append(want, x.Describe())
		}
		return fmt.Errorf("%s: expected %d children %v, tree has %d %v", path, len(want), want, len(got), got)
	}
	if len(c.Attributes()) != 0 || len(c.Namespaces()) != 0 {
		return fmt.Errorf("%s: JSON trees have no attributes or namespaces", path)
	}
	for i, mc := range m.Children {
		cc := ch[i]
		p := fmt.Sprintf("%s/%d", path, i)
		if cc.Parent() != c {
			return fmt.Errorf("%s: Parent() is not the listing node", p)
		}
		switch mc.Kind {
		case xmodel.Elem:
			e, ok := cc.Node().(node.Element)
			if _, isText := cc.Node().(node.CharData); !ok || isText {
				return fmt.Errorf("%s: expected element %q, tree has %s", p, mc.Local, xmodel.DescribeCursor(cc))
			}
			if e.Local() != mc.Local || e.Space() != "" {
				return fmt.Errorf("%s: expected element %q, tree has %s", p, mc.Local, xmodel.DescribeCursor(cc))
			}
			if err := compareJSONTree(mc, cc, p); err != nil {
				return err
			}
		case xmodel.Text:
			td, ok := cc.Node().(node.CharData)
			if !ok {
				return fmt.Errorf("%s: expected text %q, tree has %s", p, mc.Value, xmodel.DescribeCursor(cc))
			}
			if strings.HasPrefix(mc.Value, numMark) {
				if err := numberTextOK(td.CharDataValue(), mc.Value[len(numMark):]); err != nil {
					return fmt.Errorf("%s: %v", p, err)
				}
			} else if td.CharDataValue() != mc.Value {
				return fmt.Errorf("%s: expected text %q, tree has text %q", p, mc.Value, td.CharDataValue())
			}
			if len(cc.Children()) != 0 {
				return fmt.Errorf("%s: a text node has children", p)
			}
		}
	}
	return nil
}

func safeReadJSON(text string) (c store.Cursor, err error) {
	defer func() {
		if r := recover(); r != nil {
			err = &panicError{r}
		}
	}()
	return xsel.ReadJson(readerFor([]byte(text)))
}

func checkC16(c *c16Case) error {
	var ev []xmodel.Event
	for _, v := range c.Values {
		jsonEvents(v, &ev)
	}
	model := xmodel.Build(ev)
	if c.Before != "" {
		safeReadJSON(c.Before)
	}
	cur, err := safeReadJSON(c.Text)
	if pe, ok := err.(*panicError); ok {
		return fmt.Errorf("ReadJson(%q) panicked: %v", c.Text, pe.v)
	}
	if err != nil {
		return fmt.Errorf("ReadJson(%q) failed on valid JSON: %v", c.Text, err)
	}
	if cur == nil {
		return fmt.Errorf("ReadJson(%q) returned nil, nil", c.Text)
	}
	if err := compareJSONTree(model.Root, cur, ""); err != nil {
		return fmt.Errorf("ReadJson(%q): %v", c.Text, err)
	}
	return cursorContract(cur)
}

func checkC16Bad(c *c16BadCase) error {
	cur, err := safeReadJSON(c.Text)
	if pe, ok := err.(*panicError); ok {
		return fmt.Errorf("ReadJson(%q) panicked: %v", c.Text, pe.v)
	}
	if err == nil {
		n := 0
		if cur != nil {
			n = len(cur.Children())
		}
		return fmt.Errorf("ReadJson(%q) returned a tree (%d top-level nodes) and a nil error for malformed JSON (%s)", c.Text, n, c.How)
	}
	return nil
}

func jdepth(v *jval) (d int, both bool, emptyAfterKey bool, scalarAfterContainer bool) {
	var walk func(v *jval, depth int) (hasObj, hasArr bool)
	walk = func(v *jval, depth int) (bool, bool) {
		if depth > d {
			d = depth
		}
		ho, ha := v.K == "obj", v.K == "arr"
		kids := v.Items
		if v.K == "obj" {
			kids = v.Members
			for _, m := range v.Members {
				if (m.K == "obj" && len(m.Members) == 0) || (m.K == "arr" && len(m.Items) == 0) {
					emptyAfterKey = true
				}
			}
		}
		prevContainer := false
		for _, k := range kids {
			if prevContainer && k.K != "obj" && k.K != "arr" {
				scalarAfterContainer = true
			}
			prevContainer = k.K == "obj" || k.K == "arr"
			o, a := walk(k, depth+1)
			ho, ha = ho || o, ha || a
		}
		return ho, ha
	}
	o, a := walk(v, 1)
	return d, o && a, emptyAfterKey, scalarAfterContainer
}

func TestC16(t *testing.T) {
	runWitnesses(t, "C16")
	runProp(t, "map", 200000, 2000000, func(t *rapid.T) {
		c := &c16Case{}
		var sb strings.Builder
		n := 1
		if rapid.IntRange(0, 4).Draw(t, "several") == 0 {
			n = rapid.IntRange(2, 3).Draw(t, "topValues")
		}
		for i := 0; i < n; i++ {
			v := genJval(t, rapid.IntRange(2, 9).Draw(t, "maxDepth"))
			if rapid.IntRange(0, 11).Draw(t, "deepWrap") == 0 {
				// far deeper than any fixed-size bookkeeping (60-140 containers), with
				// members and items following the deep one on every outer level
				inner := v
				for k, m := 0, rapid.IntRange(60, 140).Draw(t, "wrapDepth"); k < m; k++ {
					if rapid.Bool().Draw(t, "wrapArr") {
						inner = &jval{K: "arr", Items: []*jval{inner}}
					} else {
						inner = &jval{K: "obj", Keys: []string{"k"}, Members: []*jval{inner}}
					}
				}
				if rapid.Bool().Draw(t, "outerObj") {
					v = &jval{K: "obj", Keys: []string{"a", "b"}, Members: []*jval{inner, genJval(t, 1)}}
				} else {
					v = &jval{K: "arr", Items: []*jval{inner, genJval(t, 1)}}
				}
				st.Class("nesting-beyond-60")
			}
			c.Values = append(c.Values, v)
			sb.WriteString(jws(t))
			renderJSON(t, v, &sb)
			sb.WriteString(jws(t))
			if i < n-1 {
				sb.WriteString(" ") // scalars need a separator
			}
		}
		c.Text = sb.String()
		if rapid.IntRange(0, 3).Draw(t, "failingCallBefore") == 0 {
			c.Before = []string{"{", "[[[", "{\"a\": [1, ", "[1,]", "{\"a\"}", "\"abc", "[}", "{\"a\":{\"b\":[{\"c\":"}[rapid.IntRange(0, 7).Draw(t, "before")]
			st.Class("after-a-failing-call")
		}
		if !json.Valid([]byte(c.Text)) && n == 1 {
			t.Fatalf("harness: generated invalid JSON %q", c.Text)
		}
		st.Eval(1)
		for _, v := range c.Values {
			d, both, empty, sac := jdepth(v)
			if (d >= 3 && both) || empty || sac {
				st.NonTrivial(c.Text)
				if len(c.Text) <= 120 {
					st.Sample(c.Text, map[string]any{"json": c.Text})
				}
			}
			if empty {
				st.Class("empty-container-after-key")
			}
			if sac {
				st.Class("scalar-after-container-sibling")
			}
			st.Class(fmt.Sprintf("depth=%d", d))
		}
		if n > 1 {
			st.Class("several-top-level-values")
		}
		c16Map.run(t, c)
	})
	runProp(t, "malformed", 200000, 1000000, func(t *rapid.T) {
		v := genJval(t, 3)
		if v.K != "obj" && v.K != "arr" {
			v = &jval{K: "arr", Items: []*jval{v}}
		}
		var sb strings.Builder
		renderJSON(t, v, &sb)
		text := sb.String()
		c := &c16BadCase{}
		switch rapid.IntRange(0, 4).Draw(t, "how") {
		case 4:
			// an incomplete scalar at top level, alone or after complete values
			frag := []string{"\"abc", "\"a\\", "tru", "fals", "nul", "-", "1.", "1e", "1e+", ".5", "+1", "\"\\u12", "t", "n", "'x'", "\"a\nb\""}[rapid.IntRange(0, 15).Draw(t, "fragment")]
			pre := []string{"", "", "1 ", "[1] ", "{\"a\":1} ", "\"s\" ", "null\n"}[rapid.IntRange(0, 6).Draw(t, "before")]
			c.Text, c.How = pre+frag, "incomplete scalar at top level"
		case 0, 1:
			// a strict prefix cut before the final bracket
			cut := rapid.IntRange(1, len(text)-1).Draw(t, "cut")
			c.Text, c.How = text[:cut], "truncated"
		case 2:
			// drop one structural character
			var idx []int
			inStr := false
			for i := 0; i < len(text); i++ {
				ch := text[i]
				if ch == '\\' && inStr {
					i++
					continue
				}
				if ch == '"' {
					inStr = !inStr
				}
				if !inStr && (ch == '{' || ch == '}' || ch == '[' || ch == ']' || ch == ':') {
					idx = append(idx, i)
				}
			}
			i := idx[rapid.IntRange(0, len(idx)-1).Draw(t, "drop")]
			c.Text, c.How = text[:i]+text[i+1:], "structural character dropped"
		default:
			ins := []string{",,", "bare", "]", "}", ":", "'x'", "tru", "01", "1.", "+1", "\"unterminated"}[rapid.IntRange(0, 10).Draw(t, "junk")]
			at := strings.LastIndexAny(text, "]}")
			c.Text, c.How = text[:at]+ins+text[at:], "junk before the final bracket"
		}
		if json.Valid([]byte(c.Text)) {
			st.Discard("mutation-still-valid")
			return
		}
		// a stream of several valid values is not malformed
		dec := json.NewDecoder(strings.NewReader(c.Text))
		ok := true
		for {
			var x any
			if err := dec.Decode(&x); err != nil {
				ok = err.Error() == "EOF"
				break
			}
		}
		if ok {
			st.Discard("mutation-is-a-valid-stream")
			return
		}
		st.Eval(1)
		st.Class(c.How)
		st.NonTrivial(c.Text)
		if len(c.Text) <= 80 {
			st.Sample(c.Text, map[string]any{"text": c.Text, "how": c.How})
		}
		c16Bad.run(t, c)
	})
}
