package props

import "testing"

// TestKnown runs every witness of every property (development aid).
func TestKnown(t *testing.T) {
	seen := map[string]bool{}
	for _, k := range knownFindings {
		if !seen[k.Property] {
			seen[k.Property] = true
			runWitnesses(t, k.Property)
		}
	}
}
