package props

import (
	"fmt"
	"math"
	"reflect"
	"sort"
	"strconv"
	"strings"
	"testing"

	"github.com/ChrisTrenkamp/xsel"
	"pgregory.net/rapid"

	"verif/xast"
	"verif/xmodel"
	"verif/xref"
)

// C11 - names resolve through the query's bindings, never through document
// prefixes.

var c11Diff = reg("C11", "c11-diff", checkEvalCase)
var c11Rename = reg("C11", "c11-rename", checkC11Rename)
var c11Var = reg("C11", "c11-var", checkC11Var)
var c11Fn = reg("C11", "c11-fn", checkC11Fn)
var c11Unbound = reg("C11", "c11-unbound", checkC11Unbound)

// genEnvBindings draws prefix bindings with aliases, prefixes that collide
// with the document's prefixes (p, q) but are bound differently, and prefixes
// that spell axis names.
func genEnvBindings(t *rapid.T) map[string]string {
	ns := map[string]string{}
	cands := []string{"x", "y", "p", "q", "x2", "child", "self", "text", "a-b", "xml", ""}
	for _, p := range cands {
		switch rapid.IntRange(0, 3).Draw(t, "bind-"+p) {
		case 0:
			ns[p] = "urn:x"
		case 1:
			ns[p] = "urn:y"
		case 2:
			if p == "x2" {
				ns[p] = "urn:unused"
			}
		}
	}
	if len(ns) == 0 {
		ns["x"] = "urn:x"
	}
	return ns
}

func sortedKeys(m map[string]string) []string {
	var out []string
	for k := range m {
		if k != "" { // a binding for the empty prefix is never used as a prefix (XPath 1.0 has no default namespace)
			out = append(out, k)
		}
	}
	sort.Strings(out)
	return out
}

func usesPrefix(x *xast.Expr) (used bool, alias bool) {
	xast.WalkSteps(x, func(s *xast.Step) {
		if s.Test.P != "" {
			used = true
		}
	})
	return
}

type c11RenameCase struct {
	Events []xmodel.Event    `json:"events"`
	Ctx    string            `json:"ctx"`
	NS     map[string]string `json:"ns"`
	Expr   *xast.Expr        `json:"expr"`
	Map    map[string]string `json:"map"`    // query prefix -> new query prefix
	DocMap map[string]string `json:"docmap"` // document prefix -> new document prefix
}

func renameExpr(x *xast.Expr, m map[string]string) *xast.Expr {
	if x == nil {
		return nil
	}
	y := *x
	ren := func(q string) string {
		if i := strings.IndexByte(q, ':'); i >= 0 {
			if n, ok := m[q[:i]]; ok {
				return n + q[i:]
			}
		}
		return q
	}
	if x.K == "var" || x.K == "call" {
		y.S = ren(x.S)
	}
	y.A = nil
	for _, a := range x.A {
		y.A = append(y.A, renameExpr(a, m))
	}
	y.Base = renameExpr(x.Base, m)
	y.BP = nil
	for _, p := range x.BP {
		y.BP = append(y.BP, renameExpr(p, m))
	}
	y.Steps = nil
	for _, s := range x.Steps {
		s2 := *s
		if n, ok := m[s.Test.P]; ok && s.Test.P != "" {
			s2.Test.P = n
		}
		s2.Call = renameExpr(s.Call, m)
		s2.Preds = nil
		for _, p := range s.Preds {
			s2.Preds = append(s2.Preds, renameExpr(p, m))
		}
		y.Steps = append(y.Steps, &s2)
	}
	return &y
}

func resultKey(r xsel.Result, loc *xmodel.Loc) string {
	return describeResult(r, loc)
}

// checkC11Rename: consistently renaming the prefixes of the query and its
// bindings, and the prefixes the document was built with, leaves the result
// unchanged (implementation against itself).
func checkC11Rename(c *c11RenameCase) error {
	p1, err := prepareDoc(c.Events)
	if err != nil {
		st.Discard("document-not-mirrored")
		return nil
	}
	ev2 := make([]xmodel.Event, len(c.Events))
	for i, e := range c.Events {
		if e.K == "N" {
			if n, ok := c.DocMap[e.Local]; ok {
				e.Local = n
			}
		}
		ev2[i] = e
	}
	p2, err := prepareDoc(ev2)
	if err != nil {
		st.Discard("document-not-mirrored")
		return nil
	}
	env := &xref.Env{Doc: p1.doc, NS: c.NS}
	if _, err := env.Eval(c.Expr, xref.Ctx{Node: p1.doc.Resolve(c.Ctx), Pos: 1, Size: 1}); err == xref.ErrOutOfScope {
		st.Discard("out-of-scope")
		return nil
	}
	run := func(p *prepared, x *xast.Expr, ns map[string]string) (string, error) {
		text := xast.RenderMinimal(x)
		g, err := buildExpr(text)
		if err != nil {
			return "", fmt.Errorf("BuildExpr(%q): %v", text, firstLine(err.Error()))
		}
		var set []xsel.ContextApply
		for k, v := range ns {
			set = append(set, xsel.WithNS(k, v))
		}
		r, err := safeExec(p.loc.ToCur[p.doc.Resolve(c.Ctx)], g, set...)
		if err != nil {
			return "error", nil
		}
		return resultKey(r, p.loc), nil
	}
	ns2 := map[string]string{}
	for k, v := range c.NS {
		if n, ok := c.Map[k]; ok {
			ns2[n] = v
		} else {
			ns2[k] = v
		}
	}
	a, err := run(p1, c.Expr, c.NS)
	if err != nil {
		return err
	}
	b, err := run(p1, renameExpr(c.Expr, c.Map), ns2)
	if err != nil {
		return err
	}
	d, err := run(p2, c.Expr, c.NS)
	if err != nil {
		return err
	}
	st.Eval(2)
	if a != b {
		return fmt.Errorf("renaming query prefixes %v changed the result of %s: %s -> %s", c.Map, xast.RenderMinimal(c.Expr), a, b)
	}
	if a != d {
		return fmt.Errorf("rebuilding the document with prefixes renamed %v changed the result of %s: %s -> %s", c.DocMap, xast.RenderMinimal(c.Expr), a, d)
	}
	return nil
}

type c11VarCase struct {
	Events []xmodel.Event    `json:"events"`
	NS     map[string]string `json:"ns"`
	Var    varBinding        `json:"var"`
	Ref    string            `json:"ref"` // the QName used in the query
}

// checkC11Var: a variable evaluates to exactly the bound value.
func checkC11Var(c *c11VarCase) error {
	p, err := prepareDoc(c.Events)
	if err != nil {
		st.Discard("document-not-mirrored")
		return nil
	}
	ec := &evalCase{Events: c.Events, NS: c.NS, Vars: []varBinding{c.Var}}
	set, _, err := ec.settings(p)
	if err != nil {
		return err
	}
	g, err := buildExpr("$" + c.Ref)
	if err != nil {
		return fmt.Errorf("BuildExpr($%s): %v", c.Ref, firstLine(err.Error()))
	}
	r, err := safeExec(p.root, g, set...)
	if err != nil {
		return fmt.Errorf("Exec($%s): %v", c.Ref, err)
	}
	st.Eval(1)
	bad := func() error {
		return fmt.Errorf("$%s = %s, the bound value is %+v", c.Ref, describeResult(r, p.loc), c.Var)
	}
	switch v := r.(type) {
	case xsel.Number:
		w := parseFloat(c.Var.Num)
		if c.Var.T != "num" || !(float64(v) == w && math.Signbit(float64(v)) == math.Signbit(w) || math.IsNaN(w) && math.IsNaN(float64(v))) {
			return bad()
		}
	case xsel.String:
		if c.Var.T != "str" || string(v) != c.Var.Str {
			return bad()
		}
	case xsel.Bool:
		if c.Var.T != "bool" || bool(v) != c.Var.Bool {
			return bad()
		}
	case xsel.NodeSet:
		if c.Var.T != "nodes" || len(v) != len(c.Var.Nodes) {
			return bad()
		}
		for i, cur := range v {
			if m, ok := p.loc.ToNode[cur]; !ok || m.Ref() != c.Var.Nodes[i] {
				return bad()
			}
		}
	default:
		return bad()
	}
	return nil
}

type c11FnCase struct {
	Events []xmodel.Event    `json:"events"`
	NS     map[string]string `json:"ns"`
	Vars   []varBinding      `json:"vars,omitempty"`
	Name   string            `json:"name"`  // QName of the user function as written in the query
	Space  string            `json:"space"` // namespace it is registered under
	Local  string            `json:"local"`
	Args   []*xast.Expr      `json:"args"`
}

type probeCall struct {
	ctx  xsel.Result
	pos  int
	args []xsel.Result
}

// checkC11Fn: "(//*)[f(args)]" calls the user function once per element in
// document order with the evaluated arguments in order, Context.Result() the
// one-node node-set of the current node and ContextPosition() its 0-based
// index; a user function registered under a builtin's name is called in
// preference to the builtin.
func checkC11Fn(c *c11FnCase) error {
	p, err := prepareDoc(c.Events)
	if err != nil {
		st.Discard("document-not-mirrored")
		return nil
	}
	ec := &evalCase{Events: c.Events, NS: c.NS, Vars: c.Vars}
	set, env, err := ec.settings(p)
	if err != nil {
		return err
	}
	var calls []probeCall
	probe := func(ctx xsel.Context, args ...xsel.Result) (xsel.Result, error) {
		calls = append(calls, probeCall{ctx.Result(), ctx.ContextPosition(), append([]xsel.Result{}, args...)})
		return xsel.Bool(true), nil
	}
	set = append(set, xsel.WithFunctionNS(c.Space, c.Local, probe))
	q := xast.Filter(xast.Path(true, xast.DS("child", xast.Any())), []*xast.Expr{xast.Call(c.Name, c.Args...)})
	text := xast.RenderMinimal(q)
	g, err := buildExpr(text)
	if err != nil {
		return fmt.Errorf("BuildExpr(%q): %v", text, firstLine(err.Error()))
	}
	var elems []*xmodel.Node
	for _, n := range p.doc.All {
		if n.Kind == xmodel.Elem {
			elems = append(elems, n)
		}
	}
	// expected argument values from the reference
	type want struct{ vals []xref.Value }
	var wants []want
	for i, n := range elems {
		var w want
		for _, a := range c.Args {
			v, err := env.Eval(a, xref.Ctx{Node: n, Pos: i + 1, Size: len(elems)})
			if err == xref.ErrOutOfScope || env.Unpinned != "" {
				st.Discard("out-of-scope")
				return nil
			}
			if err != nil {
				st.Discard("argument-error")
				return nil
			}
			w.vals = append(w.vals, v)
		}
		wants = append(wants, w)
	}
	r, err := safeExec(p.root, g, set...)
	if err != nil {
		return fmt.Errorf("Exec(%q): %v", text, err)
	}
	st.Eval(1)
	if ns, ok := r.(xsel.NodeSet); !ok || len(ns) != len(elems) {
		return fmt.Errorf("Exec(%q) = %s although the user function returned true for every element (%d elements): the builtin or nothing was called", text, describeResult(r, p.loc), len(elems))
	}
	if len(calls) != len(elems) {
		return fmt.Errorf("Exec(%q): user function called %d times for %d candidate elements", text, len(calls), len(elems))
	}
	for i, call := range calls {
		ns, ok := call.ctx.(xsel.NodeSet)
		if !ok || len(ns) != 1 || p.loc.ToNode[ns[0]] != elems[i] {
			return fmt.Errorf("call %d: Context.Result() = %s, want the one-node node-set [%s]", i, describeResult(call.ctx, p.loc), elems[i].Ref())
		}
		if call.pos != i {
			return fmt.Errorf("call %d: Context.ContextPosition() = %d, want %d (0-based index of the context node)", i, call.pos, i)
		}
		if len(call.args) != len(c.Args) {
			return fmt.Errorf("call %d: got %d arguments, the call has %d", i, len(call.args), len(c.Args))
		}
		for k, a := range call.args {
			if a == nil {
				return fmt.Errorf("call %d: argument %d is nil", i, k)
			}
			if err := compareResult(a, wants[i].vals[k], p.loc, false, true); err != nil {
				return fmt.Errorf("call %d (context %s): argument %d (%s): %v", i, elems[i].Ref(), k, xast.RenderMinimal(c.Args[k]), err)
			}
		}
	}
	// the same bindings given to Unmarshal reach the queries in the struct tags
	calls = nil
	typ := reflect.StructOf([]reflect.StructField{{Name: "V", Type: reflect.TypeOf([]string{}), Tag: reflect.StructTag("xsel:" + strconv.Quote(text))}})
	target := reflect.New(typ)
	var uerr error
	func() {
		defer func() {
			if r := recover(); r != nil {
				uerr = fmt.Errorf("panic: %v", r)
			}
		}()
		uerr = xsel.Unmarshal(xsel.NodeSet{p.root}, target.Interface(), set...)
	}()
	if uerr != nil {
		return fmt.Errorf("Unmarshal with the same bindings into struct{V []string `xsel:%q`} failed: %v", text, uerr)
	}
	if got := target.Elem().Field(0).Len(); got != len(elems) || len(calls) != len(elems) {
		return fmt.Errorf("Unmarshal with the same bindings into struct{V []string `xsel:%q`}: %d elements and the user function was called %d times, want %d and %d", text, got, len(calls), len(elems), len(elems))
	}
	return nil
}

type c11UnboundCase struct {
	Events []xmodel.Event    `json:"events"`
	NS     map[string]string `json:"ns"`
	Text   string            `json:"text"`
	What   string            `json:"what"`
	// names that ARE bound (under another expanded name than the one referenced)
	BoundVars  []xref.Name `json:"bound_vars,omitempty"`
	BoundFuncs []xref.Name `json:"bound_funcs,omitempty"`
}

// checkC11Unbound: an evaluated reference to an unbound prefix, variable or
// function yields an error.
func checkC11Unbound(c *c11UnboundCase) error {
	p, err := prepareDoc(c.Events)
	if err != nil {
		st.Discard("document-not-mirrored")
		return nil
	}
	g, err := buildExpr(c.Text)
	if err != nil {
		return nil // rejected at compile time: also an error
	}
	var set []xsel.ContextApply
	for k, v := range c.NS {
		set = append(set, xsel.WithNS(k, v))
	}
	for _, v := range c.BoundVars {
		set = append(set, xsel.WithVariableNS(v.Space, v.Local, xsel.Number(7)))
	}
	for _, f := range c.BoundFuncs {
		set = append(set, xsel.WithFunctionNS(f.Space, f.Local, func(xsel.Context, ...xsel.Result) (xsel.Result, error) { return xsel.Number(7), nil }))
	}
	if len(c.Events)%2 == 0 {
		// another query bound these very names a moment ago - for itself
		pollute(p.root)
	}
	r, err := safeExec(p.root, g, set...)
	st.Eval(1)
	if pe, ok := err.(*panicError); ok {
		return fmt.Errorf("Exec(%q) panicked: %v", c.Text, pe.v)
	}
	if err == nil {
		return fmt.Errorf("Exec(%q) returned %s although the %s is unbound and is evaluated (bindings %v, bound variables %v, bound functions %v)", c.Text, describeResult(r, p.loc), c.What, c.NS, c.BoundVars, c.BoundFuncs)
	}
	return nil
}

func TestC11(t *testing.T) {
	runWitnesses(t, "C11")
	runProp(t, "diff", 60000, 1000000, func(t *rapid.T) {
		ev := xmodel.Gen(t, docCfg())
		p, err := prepareDoc(ev)
		if err != nil {
			st.Discard("document-not-mirrored")
			return
		}
		ns := genEnvBindings(t)
		elems, attrs, targets := docNames(p.doc)
		c := &evalCase{Events: ev, Ctx: "/", NS: ns}
		env := xast.GenEnv{ElemNames: queryable(elems), AttrNames: queryable(attrs), PITargets: targets, Prefixes: sortedKeys(ns), NoNSAxis: true}
		// variables in and out of namespaces
		c.Vars = append(c.Vars, varBinding{Local: "n", T: "num", Num: fmtFloat(genFloat(t, "n"))}, varBinding{Local: "s", T: "str", Str: genString(t, "s")})
		env.NumVars, env.StrVars = []string{"n"}, []string{"s"}
		// names beyond letters and digits: combining marks, extenders, the middle dot (all NCName characters)
		for i, nm := range []string{"नाम", "cafe\u0301", "l\u00b7l", "ดี", "a\u0300\u0301", "x\u3005", "n-1.b_c"} {
			if rapid.IntRange(0, 3).Draw(t, fmt.Sprintf("exoticVar%d", i)) == 0 {
				c.Vars = append(c.Vars, varBinding{Local: nm, T: "num", Num: fmtFloat(float64(200 + i))})
				env.NumVars = append(env.NumVars, nm)
			}
		}
		for _, pf := range sortedKeys(ns) {
			if rapid.Bool().Draw(t, "nsVar-"+pf) {
				// two prefixes for one URI name the same variable
				c.Vars = append(c.Vars, varBinding{Space: ns[pf], Local: "n", T: "num", Num: fmtFloat(float64(len(ns[pf])))})
				env.NumVars = append(env.NumVars, pf+":n")
			}
			if pf != "x2" && rapid.IntRange(0, 2).Draw(t, "nsVarSameSpelling-"+pf) == 0 {
				// a local name spelled like its prefix ($x:x, $child:child): the QName is split at the colon, nothing else
				dup := false
				for _, b := range c.Vars {
					if b.Space == ns[pf] && b.Local == pf {
						dup = true
					}
				}
				if !dup {
					c.Vars = append(c.Vars, varBinding{Space: ns[pf], Local: pf, T: "num", Num: fmtFloat(float64(100 + len(pf)))})
					env.NumVars = append(env.NumVars, pf+":"+pf)
				}
			}
		}
		g := &xast.G{T: t, Env: env}
		c.Expr = g.Any(2)
		c.Text = xast.Render(c.Expr, xast.RapidChooser{T: t}, drawStyle(t))
		out, why, err := evalPrepared(c, p)
		if out == discarded {
			st.Discard(why)
			return
		}
		st.Eval(1)
		used := false
		xast.WalkSteps(c.Expr, func(s *xast.Step) {
			if s.Test.P != "" {
				used = true
			}
		})
		xast.Walk(c.Expr, func(e *xast.Expr) {
			if e.K == "var" && strings.Contains(e.S, ":") {
				used = true
			}
		})
		if used {
			key := c.Text + fmt.Sprint(ns) + fmt.Sprint(len(ev))
			st.NonTrivial(key)
			st.Class("prefixed-name-used")
			if len(ev) <= 24 {
				st.Sample(key, map[string]any{"events": eventStrings(ev), "bindings": ns, "expr": c.Text, "expected": lastRef.Describe()})
			}
		}
		if err != nil {
			recordFailure("C11", "c11-diff", c, err.Error())
			t.Fatalf("C11/diff: %v", err)
		}
	})
	runProp(t, "rename", 20000, 300000, func(t *rapid.T) {
		ev := xmodel.Gen(t, docCfg())
		p, err := prepareDoc(ev)
		if err != nil {
			st.Discard("document-not-mirrored")
			return
		}
		ns := genEnvBindings(t)
		elems, attrs, targets := docNames(p.doc)
		g := &xast.G{T: t, Env: xast.GenEnv{ElemNames: queryable(elems), AttrNames: queryable(attrs), PITargets: targets, Prefixes: sortedKeys(ns), NoNSAxis: true}}
		c := &c11RenameCase{Events: ev, Ctx: "/", NS: ns, Expr: g.NodeSet(2, false), Map: map[string]string{}, DocMap: map[string]string{"p": "q", "q": "p", "": "dflt"}}
		fresh := []string{"k1", "k2", "k3", "k4", "k5", "k6", "k7", "k8", "k9", "k10", "k11", "k12"}
		for i, pf := range sortedKeys(ns) {
			c.Map[pf] = fresh[i]
		}
		st.Class("rename")
		st.NonTrivial(xast.RenderMinimal(c.Expr) + fmt.Sprint(ns, len(ev)))
		if len(ev) <= 20 {
			st.Sample(xast.RenderMinimal(c.Expr), map[string]any{"events": eventStrings(ev), "bindings": ns, "expr": xast.RenderMinimal(c.Expr), "rename": c.Map})
		}
		c11Rename.run(t, c)
	})
	runProp(t, "variables", 30000, 300000, func(t *rapid.T) {
		ev := xmodel.Gen(t, xmodel.GenCfg{MaxDepth: 3, MaxKids: 3})
		p, err := prepareDoc(ev)
		if err != nil {
			st.Discard("document-not-mirrored")
			return
		}
		c := &c11VarCase{Events: ev, NS: map[string]string{"x": "urn:x", "y": "urn:x"}}
		name := []string{"v", "a-b", "child", "text", "é"}[rapid.IntRange(0, 4).Draw(t, "varName")]
		c.Var.Local, c.Ref = name, name
		if rapid.Bool().Draw(t, "namespaced") {
			c.Var.Space = "urn:x"
			c.Ref = []string{"x", "y"}[rapid.IntRange(0, 1).Draw(t, "viaPrefix")] + ":" + name
		}
		switch rapid.IntRange(0, 3).Draw(t, "varType") {
		case 0:
			c.Var.T, c.Var.Num = "num", fmtFloat(genFloat(t, "val"))
		case 1:
			c.Var.T, c.Var.Str = "str", genString(t, "val")
		case 2:
			c.Var.T, c.Var.Bool = "bool", rapid.Bool().Draw(t, "val")
		default:
			c.Var.T = "nodes"
			seen := map[string]bool{}
			for i, n := 0, rapid.IntRange(0, 5).Draw(t, "size"); i < n; i++ {
				r := p.doc.All[rapid.IntRange(0, len(p.doc.All)-1).Draw(t, "node")].Ref()
				if !seen[r] {
					seen[r] = true
					c.Var.Nodes = append(c.Var.Nodes, r)
				}
			}
		}
		st.Class("variable type=" + c.Var.T)
		key := fmt.Sprintf("%+v|%s", c.Var, c.Ref)
		st.NonTrivial(key)
		st.Sample(key, map[string]any{"ref": "$" + c.Ref, "bound": c.Var})
		c11Var.run(t, c)
	})
	runProp(t, "functions", 25000, 300000, func(t *rapid.T) {
		ev := xmodel.Gen(t, xmodel.GenCfg{MaxDepth: 3, MaxKids: 3, Numeric: true})
		p, err := prepareDoc(ev)
		if err != nil {
			st.Discard("document-not-mirrored")
			return
		}
		elems, attrs, _ := docNames(p.doc)
		c := &c11FnCase{Events: ev, NS: map[string]string{"u": "urn:fn", "u2": "urn:fn"},
			Vars: []varBinding{{Local: "n", T: "num", Num: fmtFloat(genFloat(t, "n"))}, {Local: "s", T: "str", Str: genString(t, "s")}}}
		switch rapid.IntRange(0, 4).Draw(t, "fnName") {
		case 0:
			c.Name, c.Space, c.Local = "u:probe", "urn:fn", "probe"
		case 1:
			c.Name, c.Space, c.Local = "u2:probe", "urn:fn", "probe" // alias prefix
		case 2:
			c.Name, c.Local = "probe", "probe"
		default:
			// shadow a builtin: the user function must win
			b := []string{"true", "count", "string", "not", "position", "contains"}[rapid.IntRange(0, 5).Draw(t, "builtin")]
			c.Name, c.Local = b, b
		}
		g := &xast.G{T: t, Env: xast.GenEnv{ElemNames: queryable(elems), AttrNames: queryable(attrs), NumVars: []string{"n"}, StrVars: []string{"s"}, NoAbs: false, NoNSAxis: true, NoLang: true}}
		for i, n := 0, rapid.IntRange(0, 3).Draw(t, "nArgs"); i < n; i++ {
			a := g.Any(1)
			xast.Walk(a, func(e *xast.Expr) {
				if e.K == "call" && e.S == c.Name {
					a = nil // the probe itself must not occur inside its arguments
				}
			})
			if a == nil {
				a = xast.Num("1")
			}
			c.Args = append(c.Args, a)
		}
		st.Class("fn=" + c.Name)
		key := c.Name + fmt.Sprint(len(c.Args)) + fmt.Sprint(ev)
		for _, a := range c.Args {
			key += xast.RenderMinimal(a)
		}
		if c.Space != "" || c.Name != "probe" {
			st.NonTrivial(key)
			if len(ev) <= 20 {
				var as []string
				for _, a := range c.Args {
					as = append(as, xast.RenderMinimal(a))
				}
				st.Sample(key, map[string]any{"events": eventStrings(ev), "function": c.Name, "args": as})
			}
		}
		c11Fn.run(t, c)
	})
	runProp(t, "unbound", 20000, 200000, func(t *rapid.T) {
		ev := xmodel.Gen(t, xmodel.GenCfg{MaxDepth: 2, MaxKids: 2})
		c := &c11UnboundCase{Events: ev, NS: map[string]string{"x": "urn:x"}}
		// the reference is in a position that is certainly evaluated
		forms := []struct{ text, what string }{
			{"/zz:a", "prefix"}, {"//zz:*", "prefix"}, {"count(//zz:a)", "prefix"}, {"//*[zz:a]", "prefix"}, {"/*/@zz:id", "prefix"},
			{"$nope", "variable"}, {"1 + $nope", "variable"}, {"$x:nope", "variable"}, {"$zz:v", "prefix"}, {"//*[$nope]", "variable"},
			{"nope()", "function"}, {"x:nope(1)", "function"}, {"zz:f()", "prefix"}, {"//*[nope(.)]", "function"}, {"concat('a', nope())", "function"},
			{"self::zz:a", "prefix"}, {"string(x:nope())", "function"}, {"p:a", "prefix"}, {"//q:*", "prefix"},
			// no prefix is bound implicitly, xml included
			{"//xml:a", "prefix"}, {"//@xml:lang", "prefix"}, {"count(//@xml:*)", "prefix"}, {"$xml:v", "prefix"}, {"xml:f()", "prefix"}, {"//*[@xml:lang = 'en']", "prefix"},
			// the left operand of and/or is always evaluated
			{"nope() or true()", "function"}, {"$nope or 1", "variable"}, {"//zz:a or true()", "prefix"}, {"nope() and false()", "function"}, {"$zz:v and 0", "prefix"},
			{"(nope() or true()) and true()", "function"}, {"//*[$nope or .]", "variable"}, {"count(//*[nope() or true()])", "function"}, {"1 + nope() > 0 or true()", "function"},
			{"nope() | /*", "function"}, {"-$nope", "variable"}, {"$nope = $nope", "variable"}, {"concat(1, 2, $nope)", "variable"}, {"//*[1][zz:a]", "prefix"},
		}
		f := forms[rapid.IntRange(0, len(forms)-1).Draw(t, "form")]
		c.Text, c.What = f.text, f.what
		if rapid.Bool().Draw(t, "nearMiss") {
			// a name that is bound or built in, referenced under ANOTHER expanded name
			core := []string{"count(/*)", "true()", "false()", "position()", "last()", "not(1)", "concat('a','b')", "string(1)", "string-length('a')", "sum(/*)", "name()",
				"local-name()", "namespace-uri()", "normalize-space(' a')", "boolean(1)", "number('1')", "floor(1.5)", "ceiling(1.5)", "round(1.5)", "lang('en')", "id('a')",
				"starts-with('ab','a')", "contains('ab','a')", "substring('abc',2)", "substring-before('ab','b')", "substring-after('ab','a')", "translate('a','a','b')"}
			var call string
			switch rapid.IntRange(0, 5).Draw(t, "nearMissKind") {
			case 0, 1, 2:
				// a core function name behind a bound prefix: {urn:x}count is not count
				call, c.What = "x:"+core[rapid.IntRange(0, len(core)-1).Draw(t, "core")], "function (a core function's local name in namespace urn:x)"
				switch rapid.IntRange(0, 2).Draw(t, "others") {
				case 0:
					c.BoundFuncs = []xref.Name{{Space: "urn:other", Local: strings.SplitN(call[2:], "(", 2)[0]}}
				case 1:
					c.BoundFuncs = []xref.Name{{Local: "probe"}}
				}
			case 3:
				c.BoundFuncs = []xref.Name{{Local: "probe"}}
				call, c.What = "x:probe()", "function (probe is bound, {urn:x}probe is not)"
			case 4:
				c.BoundFuncs = []xref.Name{{Space: "urn:x", Local: "probe"}}
				call, c.What = "probe()", "function ({urn:x}probe is bound, probe is not)"
			default:
				if rapid.Bool().Draw(t, "varInNS") {
					c.BoundVars = []xref.Name{{Space: "urn:x", Local: "n"}}
					call, c.What = "$n", "variable ({urn:x}n is bound, n is not)"
				} else {
					c.BoundVars = []xref.Name{{Local: "n"}}
					call, c.What = "$x:n", "variable (n is bound, {urn:x}n is not)"
				}
			}
			wraps := []string{"%s", "//*[%s]", "%s or true()", "string(%s)", "count(//*[%s or true()])", "1 + %s", "concat('a', %s)"}
			c.Text = fmt.Sprintf(wraps[rapid.IntRange(0, len(wraps)-1).Draw(t, "wrap")], call)
			f.text, f.what = c.Text, "near-miss "+strings.SplitN(c.What, " ", 2)[0]
		}
		st.Class("unbound " + f.what)
		st.NonTrivial(f.text + fmt.Sprint(len(ev)))
		st.Sample(f.text, map[string]any{"expr": f.text, "unbound": f.what})
		c11Unbound.run(t, c)
	})
}
