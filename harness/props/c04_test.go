package props

import (
	"fmt"
	"math"
	"sort"
	"strings"
	"testing"
	"unicode"

	"github.com/ChrisTrenkamp/xsel"
	"pgregory.net/rapid"

	"verif/xast"
	"verif/xmodel"
	"verif/xref"
)

// C04 - string(), number(), boolean() and the implicit conversions.

var c04Conv = reg("C04", "c04-conv", checkEvalCase)
var c04SV = reg("C04", "c04-stringvalue", checkC04StringValue)

func numClass(f float64) string {
	switch {
	case math.IsNaN(f):
		return "NaN"
	case math.IsInf(f, 0):
		return "infinity"
	case f == 0 && math.Signbit(f):
		return "negative-zero"
	case f == 0:
		return "zero"
	case math.Abs(f) < 2.3e-308:
		return "subnormal"
	case math.Abs(f) < 1e-7:
		return "tiny(<1e-7)"
	case math.Abs(f) >= 9.3e18:
		return "huge(>2^63)"
	case math.Abs(f) >= 1e21:
		return "exponent-range(>=1e21)"
	case f == math.Trunc(f):
		return "integer"
	}
	return "fraction"
}

func strClass(s string) string {
	t := strings.TrimFunc(s, xref.IsXMLSpace)
	switch {
	case s == "":
		return "empty"
	case !math.IsNaN(xref.StringToNumber(s)) && t != s:
		return "whitespace-padded-numeral"
	case !math.IsNaN(xref.StringToNumber(s)):
		return "numeral"
	case strings.ContainsAny(t, "eE") && strings.IndexFunc(t, unicode.IsDigit) >= 0:
		return "exponent-looking"
	case strings.HasPrefix(t, "+"):
		return "plus-sign"
	case strings.HasPrefix(strings.ToLower(t), "0x"):
		return "hex-looking"
	case strings.Contains(strings.ToLower(t), "inf"):
		return "infinity-word"
	case strings.EqualFold(t, "nan"):
		return "NaN-word"
	case strings.IndexFunc(s, func(r rune) bool { return r > 127 }) >= 0:
		return "non-ascii"
	case strings.TrimFunc(s, unicode.IsSpace) != t:
		return "non-xml-space-padded"
	}
	return "other"
}

// genC04Source draws the value to convert and reports its class.
func genC04Source(g *xast.G, c *evalCase, p *prepared) (*xast.Expr, string) {
	t := g.T
	switch rapid.IntRange(0, 9).Draw(t, "srcKind") {
	case 0, 1:
		v := c.Vars[rapid.IntRange(0, 1).Draw(t, "numVarIdx")]
		return xast.Var(v.Local), "number:" + numClass(parseFloat(v.Num))
	case 2, 3, 4:
		v := c.Vars[2+rapid.IntRange(0, 1).Draw(t, "strVarIdx")]
		return xast.Var(v.Local), "string:" + strClass(v.Str)
	case 5:
		if rapid.Bool().Draw(t, "boolVal") {
			return xast.Call("true"), "boolean:true"
		}
		return xast.Call("false"), "boolean:false"
	case 6:
		return xast.Num(g.Env.Nums[rapid.IntRange(0, len(g.Env.Nums)-1).Draw(t, "numLit")]), "number:literal"
	}
	// node-sets of every kind and order
	var e *xast.Expr
	if c.Events2 != nil && rapid.IntRange(0, 5).Draw(t, "foreign") == 0 {
		// nodes of ANOTHER document of the same shape (same positions, other values)
		return xast.Var("f"), "node-set:foreign"
	}
	switch rapid.IntRange(0, 8).Draw(t, "nsShape") {
	case 0:
		e = xast.Path(true, xast.DS("child", xast.NodeT()))
	case 1:
		e = xast.Path(true, xast.DS("attribute", xast.Any()))
	case 2:
		e = xast.Path(true, xast.DS("namespace", xast.NodeT()))
	case 3:
		e = xast.Path(true, xast.DS("child", xast.Test{K: []string{"comment", "pi", "text"}[rapid.IntRange(0, 2).Draw(t, "leafKind")]}))
	case 4:
		e = xast.Path(true, xast.DS("child", xast.Name("", "nosuch")))
	case 5, 6:
		// a reverse-axis result: first node in document order is not slice element 0
		inner := g.RelPath(0, 2)
		inner.Abs, inner.Steps[0].DS = true, true
		ax := []string{"ancestor", "ancestor-or-self", "preceding", "preceding-sibling"}[rapid.IntRange(0, 3).Draw(t, "revAxis")]
		inner.Steps = append(inner.Steps, &xast.Step{Axis: ax, Test: xast.NodeT()})
		e = inner
	default:
		e = g.NodeSet(1, false)
	}
	return e, "node-set"
}

func sortedFuncKeys(m map[string]func(x *xast.Expr) *xast.Expr) []string {
	var ks []string
	for k := range m {
		ks = append(ks, k)
	}
	sort.Strings(ks)
	return ks
}

func TestC04(t *testing.T) {
	runWitnesses(t, "C04")
	nums := []string{"0", "1", "12", "0.5", ".5", "007", "1.50", "100", "3.0"}
	runProp(t, "conv", 240000, 3000000, func(t *rapid.T) {
		var cls, wrap string
		c, p := genDocCase(t, caseOpts{cfg: xmodel.GenCfg{MaxDepth: 3, MaxKids: 3, MaxTop: 1, Forest: true, Stress: true}, vars: true, nodeVars: true},
			func(g *xast.G, p *prepared) *xast.Expr { return xast.Num("0") }, xast.Style{})
		if c == nil {
			return
		}
		elems, attrs, targets := docNames(p.doc)
		g := &xast.G{T: t, Env: xast.GenEnv{ElemNames: queryable(elems), AttrNames: queryable(attrs), PITargets: targets, Prefixes: prefixesOf(c.NS), Nums: nums, NodeVars: []string{"v"}}}
		// the second document: the first one with other text and attribute values; $f holds some of its nodes
		for _, e := range c.Events {
			if (e.K == "T" || e.K == "A") && e.Value != "" {
				e.Value = []string{"1", "2", "abc", " 12 ", "x", "-0", "007"}[rapid.IntRange(0, 6).Draw(t, "value2")]
			}
			c.Events2 = append(c.Events2, e)
		}
		fb := varBinding{Local: "f", T: "nodes", Doc2: true}
		for i, n := 0, rapid.IntRange(1, 4).Draw(t, "foreignSize"); i < n; i++ {
			fb.Nodes = append(fb.Nodes, p.doc.All[rapid.IntRange(0, len(p.doc.All)-1).Draw(t, "foreignNode")].Ref())
		}
		c.Vars = append(c.Vars, fb)
		src, cls := genC04Source(g, c, p)
		wraps := []string{"string", "number", "boolean", "notnot", "plus0", "concat", "andtrue", "neg", "strlen", "pred", "bare", "roundtrip"}
		// the implicit conversion of every argument position of the core library
		implicit := map[string]func(x *xast.Expr) *xast.Expr{
			"contains#1":    func(x *xast.Expr) *xast.Expr { return xast.Call("contains", x, xast.Str("1")) },
			"contains#2":    func(x *xast.Expr) *xast.Expr { return xast.Call("contains", xast.Str("a1b2 true NaN"), x) },
			"starts-with#1": func(x *xast.Expr) *xast.Expr { return xast.Call("starts-with", x, xast.Str("1")) },
			"starts-with#2": func(x *xast.Expr) *xast.Expr { return xast.Call("starts-with", xast.Str("12 true"), x) },
			"substring#1":   func(x *xast.Expr) *xast.Expr { return xast.Call("substring", x, xast.Num("2")) },
			"substring#2":   func(x *xast.Expr) *xast.Expr { return xast.Call("substring", xast.Str("abcdefghijklm"), x) },
			"substring#3": func(x *xast.Expr) *xast.Expr {
				return xast.Call("substring", xast.Str("abcdefghijklm"), xast.Num("2"), x)
			},
			"substring-before#1": func(x *xast.Expr) *xast.Expr { return xast.Call("substring-before", x, xast.Str("2")) },
			"substring-before#2": func(x *xast.Expr) *xast.Expr { return xast.Call("substring-before", xast.Str("a1b2c12 true"), x) },
			"substring-after#1":  func(x *xast.Expr) *xast.Expr { return xast.Call("substring-after", x, xast.Str("1")) },
			"substring-after#2":  func(x *xast.Expr) *xast.Expr { return xast.Call("substring-after", xast.Str("a1b2c12 true"), x) },
			"translate#1":        func(x *xast.Expr) *xast.Expr { return xast.Call("translate", x, xast.Str("12a"), xast.Str("xy")) },
			"translate#2": func(x *xast.Expr) *xast.Expr {
				return xast.Call("translate", xast.Str("a1b2c3 true"), x, xast.Str("XYZ"))
			},
			"translate#3":       func(x *xast.Expr) *xast.Expr { return xast.Call("translate", xast.Str("abcabc"), xast.Str("abc"), x) },
			"normalize-space#1": func(x *xast.Expr) *xast.Expr { return xast.Call("normalize-space", x) },
			"concat#3":          func(x *xast.Expr) *xast.Expr { return xast.Call("concat", xast.Str("<"), xast.Str("|"), x) },
			"floor#1":           func(x *xast.Expr) *xast.Expr { return xast.Call("floor", x) },
			"ceiling#1":         func(x *xast.Expr) *xast.Expr { return xast.Call("ceiling", x) },
			"round#1":           func(x *xast.Expr) *xast.Expr { return xast.Call("round", x) },
			"div#2":             func(x *xast.Expr) *xast.Expr { return xast.Bin("div", xast.Num("1"), x) },
			"mod#1":             func(x *xast.Expr) *xast.Expr { return xast.Bin("mod", x, xast.Num("2")) },
			"*#2":               func(x *xast.Expr) *xast.Expr { return xast.Bin("*", xast.Num("2"), x) },
			"-#2":               func(x *xast.Expr) *xast.Expr { return xast.Bin("-", xast.Num("0"), x) },
			"or#1":              func(x *xast.Expr) *xast.Expr { return xast.Bin("or", x, xast.Call("false")) },
			"or#2":              func(x *xast.Expr) *xast.Expr { return xast.Bin("or", xast.Call("false"), x) },
			"and#2":             func(x *xast.Expr) *xast.Expr { return xast.Bin("and", xast.Call("true"), x) },
			"lang#1":            func(x *xast.Expr) *xast.Expr { return xast.Call("lang", x) },
			// compared with a boolean, the other operand converts with boolean()
			"=true#1":   func(x *xast.Expr) *xast.Expr { return xast.Bin("=", x, xast.Call("true")) },
			"=true#2":   func(x *xast.Expr) *xast.Expr { return xast.Bin("=", xast.Call("true"), x) },
			"!=false#1": func(x *xast.Expr) *xast.Expr { return xast.Bin("!=", x, xast.Call("false")) },
			"=false#2":  func(x *xast.Expr) *xast.Expr { return xast.Bin("=", xast.Call("false"), x) },
			// operands of the relational operators convert with number() as well
			">#1":  func(x *xast.Expr) *xast.Expr { return xast.Bin(">", x, xast.Num("0")) },
			"<#2":  func(x *xast.Expr) *xast.Expr { return xast.Bin("<", xast.Num("0"), x) },
			">=#2": func(x *xast.Expr) *xast.Expr { return xast.Bin(">=", xast.Num("100000"), x) },
			"<=#1": func(x *xast.Expr) *xast.Expr { return xast.Bin("<=", x, xast.Num("100000")) },
			"<#1n": func(x *xast.Expr) *xast.Expr {
				return xast.Bin("<", x, xast.Path(true, xast.DS("child", xast.NodeT())))
			},
		}
		for _, k := range sortedFuncKeys(implicit) {
			wraps = append(wraps, k)
		}
		wrap = wraps[rapid.IntRange(0, len(wraps)-1).Draw(t, "wrap")]
		if cls == "node-set:foreign" {
			// compared with nodes of the queried document (string-values, whatever document they are in)
			switch wrap {
			case "bare", "pred", "<#1n":
				wrap = "=nodes"
			case "strlen", "normalize-space#1", "lang#1", "string", "number":
				wrap = "foreign-context"
			}
		}
		var e *xast.Expr
		if f, ok := implicit[wrap]; ok {
			e = f(src)
		}
		switch wrap {
		case "foreign-context":
			// the foreign nodes as predicate context of the context-dependent functions, next to the same functions on the queried document
			inner := []*xast.Expr{xast.Bin(">", xast.Call("string-length"), xast.Num("1")), xast.Call("lang", xast.Str("en")), xast.Bin("=", xast.Call("normalize-space"), xast.Path(false, xast.S("self", xast.NodeT()))),
				xast.Bin("=", xast.Call("name"), xast.Str("a")), xast.Bin("=", xast.Call("local-name"), xast.Str("id")), xast.Bin(">", xast.Call("number"), xast.Num("1")), xast.Bin("=", xast.Call("string"), xast.Str("1"))}[rapid.IntRange(0, 6).Draw(t, "foreignFn")]
			own := xast.Path(true, xast.DS("child", xast.NodeT(), inner))
			e = xast.Call("concat", xast.Call("count", own), xast.Str(" "), xast.Call("count", xast.Filter(src, []*xast.Expr{inner})), xast.Str(" "), xast.Call("count", own))
		case "=nodes":
			e = xast.Bin([]string{"=", "!=", "<", ">="}[rapid.IntRange(0, 3).Draw(t, "foreignOp")], src, xast.Path(true, xast.DS("child", xast.NodeT())))
			if rapid.Bool().Draw(t, "foreignAttrs") {
				e.A[1] = xast.Path(true, xast.DS("attribute", xast.Any()))
			}
			if rapid.Bool().Draw(t, "foreignSwap") {
				e.A[0], e.A[1] = e.A[1], e.A[0]
			}
		case "string", "number", "boolean":
			e = xast.Call(wrap, src)
		case "notnot":
			e = xast.Call("not", xast.Call("not", src))
		case "plus0":
			e = xast.Bin("+", src, xast.Num("0"))
		case "concat":
			e = xast.Call("concat", src, xast.Str(""))
		case "andtrue":
			e = xast.Bin("and", src, xast.Call("true"))
		case "neg":
			e = xast.Neg(src)
		case "strlen":
			e = xast.Call("string-length", src)
		case "pred":
			// predicate truth value: boolean() of a non-number
			if strings.HasPrefix(cls, "number") {
				e = xast.Call("boolean", src)
			} else {
				e = xast.Path(true, xast.S("child", xast.NodeT(), src))
			}
		case "roundtrip":
			e = xast.Call("number", xast.Call("string", src))
		default:
			if e == nil {
				e = src
			}
		}
		c.Expr = e
		c.Text = xast.Render(e, xast.RapidChooser{T: t}, drawStyle(t))
		out, why, err := evalPrepared(c, p)
		if out == discarded {
			st.Discard(why)
			return
		}
		st.Eval(1)
		if cls == "node-set" {
			env := &xref.Env{Doc: p.doc, NS: c.NS}
			_, envx, _ := c.settings(p)
			env.Vars = envx.Vars
			v, _ := env.Eval(src, xref.Ctx{Node: p.doc.Root, Pos: 1, Size: 1})
			switch {
			case v.T != xref.TNodeSet:
			case len(v.Nodes) == 0:
				cls = "node-set:empty"
			default:
				cls = "node-set:" + v.Nodes[0].Kind.String()
				if len(v.Nodes) > 1 && xast.UsesReverseAxis(src) {
					cls += ":reverse-ordered"
				} else if len(v.Nodes) > 1 {
					cls += ":several"
				}
				if (v.Nodes[0].Kind == xmodel.Elem || v.Nodes[0].Kind == xmodel.Root) && len(v.Nodes[0].Children) > 1 {
					cls += ":mixed-content"
				}
			}
		}
		st.Class(cls)
		st.Class("conversion=" + wrap)
		key := cls + "|" + wrap
		if cls != "number:integer" && cls != "number:literal" && cls != "string:other" {
			st.NonTrivial(key + "|" + lastRef.Describe())
			st.Sample(key, map[string]any{"expr": c.Text, "vars": c.Vars, "class": cls, "expected": lastRef.Describe()})
		}
		if err != nil {
			recordFailure("C04", "c04-conv", c, err.Error())
			t.Fatalf("C04/conv: %v", err)
		}
	})
	runProp(t, "stringvalue", 24000, 100000, func(t *rapid.T) {
		c := &c10Case{Events: xmodel.Gen(t, xmodel.GenCfg{MaxDepth: 4, MaxKids: 4, MaxTop: 2, Forest: true, Stress: true})}
		c04SV.run(t, c)
	})
}

// checkC04StringValue: xsel.GetCursorString on every node of the tree.
func checkC04StringValue(c *c10Case) error {
	p, err := prepareDoc(c.Events)
	if err != nil {
		st.Discard("document-not-mirrored")
		return nil
	}
	for _, n := range p.doc.All {
		got := xsel.GetCursorString(p.loc.ToCur[n])
		st.Eval(1)
		if want := n.StringValue(); got != want {
			return fmt.Errorf("GetCursorString(%s %s) = %q, the XPath string-value is %q", n.Ref(), n.Describe(), got, want)
		}
		if (n.Kind == xmodel.Elem || n.Kind == xmodel.Root) && len(n.Children) >= 2 {
			st.NonTrivial(n.StringValue() + n.Ref() + fmt.Sprint(len(p.doc.All)))
		}
	}
	if len(c.Events) <= 20 {
		st.Sample(fmt.Sprint(c.Events), map[string]any{"events": eventStrings(c.Events), "check": "GetCursorString of every node"})
	}
	return nil
}
