package props

import (
	"bytes"
	"fmt"
	"io"
	"os"
	"os/exec"
	"runtime/debug"
	"strconv"
	"testing"

	"github.com/ChrisTrenkamp/xsel/node"
	"github.com/ChrisTrenkamp/xsel/store"

	"verif/xmodel"
)

// The stack clause of C10: "building the tree uses stack space bounded by
// nesting depth, not by the number of nodes".  The test binary re-executes
// itself as a child whose goroutine stacks are capped at 1 MiB + 4 KiB per
// nesting level; the child builds a stream of N events at depth d and must
// exit 0.  Stack proportional to the number of events overflows that cap at
// ~10^4 events and the runtime kills the child.

type c10StackCase struct {
	N     int `json:"n"`     // number of events
	Depth int `json:"depth"` // nesting depth of the flat run
}

var c10Stack = reg("C10", "c10-stack", checkC10Stack)

// flatParser emits depth nested start events, then a flat run (empty
// elements and text), then the matching end events: n events in total.
type flatParser struct {
	n, depth, i int
	elems       int
}

type fpElem struct{}

func (fpElem) Space() string { return "" }
func (fpElem) Local() string { return "e" }

type fpText struct{}

func (fpText) CharDataValue() string { return "t" }

func (p *flatParser) Pull() (node.Node, bool, error) {
	i := p.i
	p.i++
	switch {
	case i >= p.n:
		return nil, false, io.EOF
	case i < p.depth:
		p.elems++
		return fpElem{}, false, nil
	case i >= p.n-p.depth:
		return nil, true, nil
	}
	// a cycle of every event kind: element with a namespace and an attribute,
	// its end, text, comment, processing instruction
	k := (i - p.depth) % 7
	if base := i - k; k <= 3 && base+3 >= p.n-p.depth {
		return fpText{}, false, nil // no room for the whole element before the closing run
	}
	switch k {
	case 0:
		p.elems++
		return fpElem{}, false, nil
	case 1:
		return fpNS{}, false, nil
	case 2:
		return fpAttr{}, false, nil
	case 3:
		return nil, true, nil
	case 4:
		return fpText{}, false, nil
	case 5:
		return fpComment{}, false, nil
	}
	return fpPI{}, false, nil
}

type fpNS struct{}

func (fpNS) Prefix() string         { return "p" }
func (fpNS) NamespaceValue() string { return "urn:x" }

type fpAttr struct{}

func (fpAttr) Space() string          { return "" }
func (fpAttr) Local() string          { return "k" }
func (fpAttr) AttributeValue() string { return "v" }

type fpComment struct{}

func (fpComment) CommentValue() string { return "c" }

type fpPI struct{}

func (fpPI) Target() string        { return "t" }
func (fpPI) ProcInstValue() string { return "d" }

func childMain() int {
	switch os.Getenv("VERIF_CHILD") {
	case "stack":
		n, _ := strconv.Atoi(os.Getenv("VERIF_CHILD_N"))
		d, _ := strconv.Atoi(os.Getenv("VERIF_CHILD_DEPTH"))
		debug.SetMaxStack(1<<20 + 4096*d)
		p := &flatParser{n: n, depth: d}
		root, err := store.CreateInMemory(p)
		if err != nil {
			fmt.Println("CreateInMemory error:", err)
			return 3
		}
		// count the elements iteratively (the checker itself must not recurse deeply)
		count := 0
		stack := []store.Cursor{root}
		for len(stack) > 0 {
			c := stack[len(stack)-1]
			stack = stack[:len(stack)-1]
			if xmodel.KindOfCursor(c) == xmodel.Elem {
				count++
			}
			stack = append(stack, c.Children()...)
		}
		if count != p.elems {
			fmt.Printf("tree has %d elements, the stream had %d\n", count, p.elems)
			return 4
		}
		return 0
	}
	fmt.Println("unknown VERIF_CHILD mode")
	return 9
}

func testBinary() string {
	if p := os.Getenv("VERIF_TESTBIN"); p != "" {
		return p
	}
	p, _ := os.Executable()
	return p
}

func checkC10Stack(c *c10StackCase) error {
	cmd := exec.Command(testBinary())
	cmd.Env = append(os.Environ(), "VERIF_CHILD=stack", "VERIF_CHILD_N="+strconv.Itoa(c.N), "VERIF_CHILD_DEPTH="+strconv.Itoa(c.Depth), "GOMAXPROCS=2")
	var out bytes.Buffer
	cmd.Stdout, cmd.Stderr = &out, &out
	err := cmd.Run()
	if err != nil {
		msg := out.String()
		if len(msg) > 400 {
			msg = msg[:400]
		}
		return fmt.Errorf("building a stream of %d events at nesting depth %d under a stack cap of 1 MiB + 4 KiB per level: child %v: %s", c.N, c.Depth, err, firstLine(msg))
	}
	return nil
}

func runC10Stack(t *testing.T) {
	t.Run("stack", func(t *testing.T) {
		defer finalizeFailures(t)
		grid := []c10StackCase{{1000, 1}, {20000, 1}, {200000, 1}, {200000, 10}, {100000, 1000}, {300000, 1}}
		if thorough() {
			grid = append(grid, c10StackCase{1000000, 1}, c10StackCase{2000000, 1}, c10StackCase{2000000, 10}, c10StackCase{2000000, 1000}, c10StackCase{500000, 10000})
		}
		for i, c := range grid {
			if i%envShards != envShard {
				continue
			}
			c := c
			st.Eval(1)
			st.Class("stack-grid")
			if c.N >= 100000 {
				st.NonTrivial(fmt.Sprint("stack", c))
			}
			st.Sample(fmt.Sprint("stack", c), map[string]any{"events": c.N, "depth": c.Depth, "stack cap bytes": 1<<20 + 4096*c.Depth})
			c10Stack.run(t, &c)
		}
	})
}
