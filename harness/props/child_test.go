package props

// childMain is the entry point when the test binary re-executes itself as a
// child process (VERIF_CHILD set); see the stack clause of C10.
func childMain() int { return 0 }
