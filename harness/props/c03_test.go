package props

import (
	"fmt"
	"sort"
	"testing"

	"github.com/ChrisTrenkamp/xsel"
	"pgregory.net/rapid"

	"verif/xast"
	"verif/xmodel"
	"verif/xref"
)

// C03 - node-set results are duplicate-free, ordered, closed under union laws.

type c03Case struct {
	Events []xmodel.Event    `json:"events"`
	Ctx    string            `json:"ctx"`
	NS     map[string]string `json:"ns,omitempty"`
	A      *xast.Expr        `json:"a"`
	B      *xast.Expr        `json:"b"`
	C      *xast.Expr        `json:"c"`
	Abbrev bool              `json:"abbrev,omitempty"` // render with abbreviated steps
	W      []string          `json:"w,omitempty"`      // $w: a node-set variable, in document order
	View   int               `json:"view,omitempty"`   // 1, 2: the queries start from a user-written Cursor (fresh objects per call / uncomparable value type)
}

var c03Union = reg("C03", "c03-union", checkC03)

// genOverlap draws node-set expressions built to create overlap and mixed
// direction.
func genOverlap(g *xast.G, abs bool) *xast.Expr {
	t := g.T
	p := &xast.Expr{K: "path", Abs: abs}
	first := &xast.Step{Axis: "child", Test: g.Test("child"), DS: abs}
	if !abs {
		ax := g.Axis()
		first = &xast.Step{Axis: ax, Test: g.Test(ax)}
	}
	p.Steps = append(p.Steps, first)
	n := rapid.IntRange(1, 3).Draw(t, "overlapSteps")
	for i := 0; i < n; i++ {
		var ax string
		switch rapid.IntRange(0, 9).Draw(t, "overlapAxis") {
		case 0, 1:
			ax = "parent"
		case 2, 3:
			ax = "ancestor"
		case 4:
			ax = "attribute"
		case 5:
			ax = "preceding"
		case 6:
			ax = "ancestor-or-self"
		case 7:
			ax = "namespace"
		case 8:
			ax = "child"
		default:
			ax = g.Axis()
		}
		s := &xast.Step{Axis: ax, Test: g.Test(ax)}
		if ax == "namespace" && rapid.Bool().Draw(t, "nsNameTest") {
			// which namespace nodes a name test selects is not judged here; that none comes twice is
			s.Test = xast.Test{K: "name", L: []string{"p", "q", "x", "y", "xml"}[rapid.IntRange(0, 4).Draw(t, "nsName")]}
		}
		if ax == "child" && rapid.Bool().Draw(t, "childPred") {
			// a predicate-bearing child step after several (nested, reversed) context nodes
			s.Preds = append(s.Preds, g.Pred(1))
		}
		if ax == "parent" || ax == "ancestor" || ax == "ancestor-or-self" {
			if rapid.Bool().Draw(t, "wideTest") {
				s.Test = xast.Test{K: "node"}
			}
		}
		if rapid.IntRange(0, 4).Draw(t, "overlapDS") == 0 {
			s.DS = true
		}
		if rapid.IntRange(0, 3).Draw(t, "overlapPred") == 0 {
			s.Preds = append(s.Preds, g.Pred(1))
		}
		p.Steps = append(p.Steps, s)
	}
	if rapid.IntRange(0, 7).Draw(t, "fnStep") == 0 {
		// a user function as the last step: u:up() returns the parents of its context nodes as a proper node-set
		p.Steps = append(p.Steps, &xast.Step{Call: xast.Call("u:up")})
	}
	if rapid.IntRange(0, 3).Draw(t, "overlapUnion") == 0 {
		return xast.Union(p, genOverlap(g, abs))
	}
	return p
}

// c03Up is the user function u:up(): the parents of the nodes of
// Context.Result(), each once, in document order (by Pos()).
func c03Up(ctx xsel.Context, _ ...xsel.Result) (xsel.Result, error) {
	ns, _ := ctx.Result().(xsel.NodeSet)
	seen := map[int]bool{} // by position: a user-written Cursor need not be comparable
	out := xsel.NodeSet{}
	for _, n := range ns {
		if n.Pos() == 0 {
			continue // the root has no parent
		}
		if par := n.Parent(); par != nil && !seen[par.Pos()] {
			seen[par.Pos()] = true
			out = append(out, par)
		}
	}
	sort.Slice(out, func(i, j int) bool { return out[i].Pos() < out[j].Pos() })
	return out, nil
}

func TestC03(t *testing.T) {
	runWitnesses(t, "C03")
	runProp(t, "union", 8000, 300000, func(t *rapid.T) {
		ev := xmodel.Gen(t, c02DocCfg())
		p, err := prepareDoc(ev)
		if err != nil {
			st.Discard("document-not-mirrored")
			return
		}
		ns := genBindings(t)
		elems, attrs, targets := docNames(p.doc)
		ctx := p.doc.All[rapid.IntRange(0, len(p.doc.All)-1).Draw(t, "ctx")]
		abs := ctx == p.doc.Root
		g := &xast.G{T: t, Env: xast.GenEnv{ElemNames: queryable(elems), AttrNames: queryable(attrs), PITargets: targets, Prefixes: prefixesOf(ns), NoAbs: !abs}}
		c := &c03Case{Events: ev, Ctx: ctx.Ref(), NS: ns, A: genOverlap(g, abs), B: genOverlap(g, abs), C: genOverlap(g, abs), Abbrev: rapid.Bool().Draw(t, "abbrev"), View: []int{0, 0, 0, 1, 2}[rapid.IntRange(0, 4).Draw(t, "view")]}
		c03Union.run(t, c)
	})
	// operands that are guided walks: steps taken from node-sets that mix
	// elements with their own attribute and namespace nodes, from variables
	// and from parenthesised unions
	runProp(t, "walks", 6000, 200000, func(t *rapid.T) {
		ev := xmodel.Gen(t, c02DocCfg())
		p, err := prepareDoc(ev)
		if err != nil {
			st.Discard("document-not-mirrored")
			return
		}
		ns := genBindings(t)
		elems, attrs, targets := docNames(p.doc)
		ctx := p.doc.Root
		if rapid.Bool().Draw(t, "innerCtx") {
			ctx = p.doc.All[rapid.IntRange(0, len(p.doc.All)-1).Draw(t, "ctx")]
		}
		abs := ctx == p.doc.Root
		c := &c03Case{Events: ev, Ctx: ctx.Ref(), NS: ns, Abbrev: rapid.Bool().Draw(t, "abbrev"), W: mixedNodeVar(t, p.doc, "w").Nodes, View: []int{0, 0, 0, 1, 2}[rapid.IntRange(0, 4).Draw(t, "view")]}
		env := c.env(p)
		g := &xast.G{T: t, Env: xast.GenEnv{ElemNames: queryable(elems), AttrNames: queryable(attrs), PITargets: targets, Prefixes: prefixesOf(ns), NoAbs: !abs, NodeVars: []string{"w"}}}
		c.A, c.B, c.C = genWalk(t, g, env, ctx, abs, 3, 1), genWalk(t, g, env, ctx, abs, 3, 1), genWalk(t, g, env, ctx, abs, 2, 0)
		c03Union.run(t, c)
	})
}

// env is the reference environment of the case ($w bound when W is given).
func (c *c03Case) env(p *prepared) *xref.Env {
	env := &xref.Env{Doc: p.doc, NS: c.NS, Vars: map[xref.Name]xref.Value{}}
	if c.W != nil {
		var ms []*xmodel.Node
		for _, r := range c.W {
			if m := p.doc.Resolve(r); m != nil {
				ms = append(ms, m)
			}
		}
		env.Vars[xref.Name{Local: "w"}] = xref.NodeSet(xref.Sort(ms))
	}
	return env
}

func checkC03(c *c03Case) error {
	p, err := prepareDoc(c.Events)
	if err != nil {
		st.Discard("document-not-mirrored")
		return nil
	}
	ctx := p.doc.Resolve(c.Ctx)
	if ctx == nil {
		return fmt.Errorf("bad case: no node %s", c.Ctx)
	}
	var set []xsel.ContextApply
	for k, v := range c.NS {
		set = append(set, xsel.WithNS(k, v))
	}
	env := c.env(p)
	set = append(set, xsel.WithNS("u", "urn:fn"), xsel.WithFunctionNS("urn:fn", "up", c03Up))
	if c.W != nil {
		w := xsel.NodeSet{}
		for _, m := range env.Vars[xref.Name{Local: "w"}].Nodes {
			cur := p.loc.ToCur[m]
			if c.View > 0 {
				cur = viewOf(cur, c.View) // one document, one kind of cursor
			}
			w = append(w, cur)
		}
		set = append(set, xsel.WithVariable("w", w))
	}
	oos := false
	run := func(x *xast.Expr) (xsel.NodeSet, string, error) {
		text := xast.RenderMinimal(x)
		if c.Abbrev {
			text = xast.Render(x, xast.Abbrev, xast.Style{Abbrev: true})
		}
		if _, err := env.Eval(x, xref.Ctx{Node: ctx, Pos: 1, Size: 1}); err == xref.ErrOutOfScope {
			oos = true
		}
		g, err := buildExpr(text)
		if err != nil {
			return nil, text, fmt.Errorf("BuildExpr(%q): %v", text, firstLine(err.Error()))
		}
		start := p.loc.ToCur[ctx]
		if c.View > 0 {
			start = viewOf(start, c.View)
		}
		r, err := safeExec(start, g, set...)
		if err != nil {
			return nil, text, fmt.Errorf("Exec(%q): %v", text, err)
		}
		r = unviewResult(r)
		ns, ok := r.(xsel.NodeSet)
		if !ok {
			return nil, text, fmt.Errorf("Exec(%q): not a node-set", text)
		}
		st.Eval(1)
		if err := sliceInvariants(ns, p.loc, wantsAscending(x)); err != nil {
			return nil, text, fmt.Errorf("Exec(%q) from %s: %v", text, c.Ctx, err)
		}
		return ns, text, nil
	}
	type res struct {
		ns   xsel.NodeSet
		text string
	}
	get := func(x *xast.Expr) (res, error) {
		ns, text, err := run(x)
		return res{ns, text}, err
	}
	a, err := get(c.A)
	if err != nil {
		return err
	}
	b, err := get(c.B)
	if err != nil {
		return err
	}
	cc, err := get(c.C)
	if err != nil {
		return err
	}
	if oos {
		st.Discard("out-of-scope")
		return nil
	}
	ab, err := get(xast.Union(c.A, c.B))
	if err != nil {
		return err
	}
	ba, err := get(xast.Union(c.B, c.A))
	if err != nil {
		return err
	}
	if !sameNodeList(ab.ns, ba.ns) {
		return fmt.Errorf("union is not commutative: %s = %v but %s = %v", ab.text, refsOfCursors(ab.ns, p.loc), ba.text, refsOfCursors(ba.ns, p.loc))
	}
	l, err := get(xast.Union(xast.Union(c.A, c.B), c.C))
	if err != nil {
		return err
	}
	// A | (B | C): the right operand of '|' must be a path expression, so the
	// renderer parenthesises it
	r, err := get(xast.Union(c.A, xast.Union(c.B, c.C)))
	if err != nil {
		return err
	}
	if !sameNodeList(l.ns, r.ns) {
		return fmt.Errorf("union is not associative: %s = %v but %s = %v", l.text, refsOfCursors(l.ns, p.loc), r.text, refsOfCursors(r.ns, p.loc))
	}
	// a longer chain that repeats operands selects the same nodes
	chain, err := get(xast.Union(xast.Union(xast.Union(xast.Union(xast.Union(c.A, c.B), c.C), c.A), c.C), c.B))
	if err != nil {
		return err
	}
	if !sameNodeList(l.ns, chain.ns) {
		return fmt.Errorf("repeating operands changes a union: %s = %v but %s = %v", l.text, refsOfCursors(l.ns, p.loc), chain.text, refsOfCursors(chain.ns, p.loc))
	}
	aa, err := get(xast.Union(c.A, c.A))
	if err != nil {
		return err
	}
	inA := map[*xmodel.Node]bool{}
	for _, x := range a.ns {
		inA[p.loc.ToNode[x]] = true
	}
	if len(aa.ns) != len(a.ns) {
		return fmt.Errorf("union is not idempotent: %s has %d nodes, %s has %d", aa.text, len(aa.ns), a.text, len(a.ns))
	}
	for _, x := range aa.ns {
		if !inA[p.loc.ToNode[x]] {
			return fmt.Errorf("union is not idempotent: %s contains %s which %s does not", aa.text, p.loc.ToNode[x].Ref(), a.text)
		}
	}
	common := 0
	inAB := map[*xmodel.Node]bool{}
	for _, x := range b.ns {
		if inA[p.loc.ToNode[x]] {
			common++
		}
	}
	for _, x := range ab.ns {
		inAB[p.loc.ToNode[x]] = true
	}
	if len(ab.ns) != len(a.ns)+len(b.ns)-common {
		return fmt.Errorf("count(%s) = %d but count(A) + count(B) - common = %d + %d - %d", ab.text, len(ab.ns), len(a.ns), len(b.ns), common)
	}
	for _, x := range append(append(xsel.NodeSet{}, a.ns...), b.ns...) {
		if !inAB[p.loc.ToNode[x]] {
			return fmt.Errorf("%s misses %s, which one operand selects", ab.text, p.loc.ToNode[x].Ref())
		}
	}
	// count() through the library agrees
	cnt := xast.Call("count", xast.Union(c.A, c.B))
	g, err := buildExpr(xast.RenderMinimal(cnt))
	if excluded("C08-slash-star-ambiguity") && slashStarAmbiguous(xast.RenderMinimal(cnt)) {
		err = fmt.Errorf("skipped")
	}
	if err == nil {
		start := p.loc.ToCur[ctx]
		if c.View > 0 {
			start = viewOf(start, c.View)
		}
		if v, err := safeExec(start, g, set...); err != nil || v.Number() != float64(len(ab.ns)) {
			return fmt.Errorf("%s = %v (err %v) but the union has %d nodes", xast.RenderMinimal(cnt), v, err, len(ab.ns))
		}
	}
	o := env.Obs
	if common > 0 || o.DupCandidates || o.ReverseThenStep || o.UnionOverlap {
		key := a.text + "|" + b.text + "|" + cc.text + "|" + c.Ctx + fmt.Sprint(c.Events)
		st.NonTrivial(key)
		if common > 0 {
			st.Class("operands-overlap")
		}
		if o.DupCandidates {
			st.Class("step-produced-duplicate-candidates")
		}
		if o.ReverseThenStep {
			st.Class("reverse-axis-feeds-step")
		}
		if len(c.Events) <= 30 {
			st.Sample(key, map[string]any{"events": eventStrings(c.Events), "ctx": c.Ctx, "A": a.text, "B": b.text, "C": cc.text,
				"A|B": refsOfCursors(ab.ns, p.loc)})
		}
	}
	return nil
}
