package props

import (
	"bytes"
	"encoding/xml"
	"fmt"
	"os"
	"os/exec"
	"path"
	"path/filepath"
	"sort"
	"strings"
	"sync"
	"testing"

	"github.com/ChrisTrenkamp/xsel"
	"github.com/ChrisTrenkamp/xsel/node"
	"github.com/ChrisTrenkamp/xsel/store"
	"pgregory.net/rapid"

	"verif/xmodel"
)

// C20 - the CLI prints exactly the library's result for each input file.

type cliFile struct {
	Path string `json:"path"`           // relative to the work directory
	Kind string `json:"kind"`           // file dangling
	Data []byte `json:"data,omitempty"` // contents
}

type c20Case struct {
	Files []cliFile         `json:"files"`
	Args  []string          `json:"args"` // file / directory arguments ("-" = stdin)
	Stdin []byte            `json:"stdin,omitempty"`
	Expr  string            `json:"expr"`
	A     bool              `json:"a,omitempty"`
	M     bool              `json:"m,omitempty"`
	N     bool              `json:"n,omitempty"`
	R     bool              `json:"r,omitempty"`
	U     bool              `json:"u,omitempty"`
	T     string            `json:"t,omitempty"`
	S     map[string]string `json:"s,omitempty"`
	V     map[string]string `json:"v,omitempty"`
	E     map[string]string `json:"e,omitempty"`
	C     int               `json:"c,omitempty"`
	Perm  []int             `json:"perm,omitempty"` // order of the flags on the command line (a permutation of the flag groups)
	Over  [][2]string       `json:"over,omitempty"` // overridden occurrences {flag, key=value} of -s/-v/-e keys: wherever they land, the last occurrence of a key carries the value of S/V/E
}

var c20CLI = reg("C20", "c20-cli", checkC20)

var cliOnce sync.Once
var cliPath string
var cliErr error

// cliBinary returns the xsel command built from /repo's current tree (the
// driver builds it; a bare "go test" builds it on demand).
func cliBinary(race bool) (string, error) {
	if p := os.Getenv("VERIF_CLI"); p != "" {
		return p, nil
	}
	cliOnce.Do(func() {
		cliPath = filepath.Join(envOut, "xsel-cli")
		args := []string{"build", "-tags", "verif", "-o", cliPath}
		if race {
			args = append(args, "-race")
		}
		args = append(args, "github.com/ChrisTrenkamp/xsel/xsel")
		cmd := exec.Command("go", args...)
		cmd.Dir = filepath.Join(verifDir, "harness")
		if out, err := cmd.CombinedOutput(); err != nil {
			cliErr = fmt.Errorf("building the CLI: %v\n%s", err, out)
		}
	})
	return cliPath, cliErr
}

func (c *c20Case) argv() []string {
	var groups [][]string
	add := func(g ...string) { groups = append(groups, g) }
	add("-x", c.Expr)
	if c.A {
		add("-a")
	}
	if c.M {
		add("-m")
	}
	if c.N {
		add("-n")
	}
	if c.R {
		add("-r")
	}
	if c.U {
		add("-u")
	}
	if c.T != "" {
		add("-t", c.T)
	}
	if c.C > 0 {
		add("-c", fmt.Sprint(c.C))
	}
	for _, k := range sortedKeys(c.S) {
		add("-s", k+"="+c.S[k])
	}
	for _, k := range sortedKeys(c.V) {
		add("-v", k+"="+c.V[k])
	}
	for _, k := range sortedKeys(c.E) {
		add("-e", k+"="+c.E[k])
	}
	for _, o := range c.Over {
		add(o[0], o[1])
	}
	// the flags in the drawn order (indices beyond the groups are ignored,
	// groups not named keep their place at the end)
	var seq [][]string
	used := make([]bool, len(groups))
	for _, i := range c.Perm {
		if i >= 0 && i < len(groups) && !used[i] {
			used[i] = true
			seq = append(seq, groups[i])
		}
	}
	for i, g := range groups {
		if !used[i] {
			seq = append(seq, g)
		}
	}
	// a repeated -s/-v/-e key: the command keeps the last value given, so the
	// last occurrence gets the value of S/V/E and an earlier one the other
	real := map[string]string{}
	for k, v := range c.S {
		real["-s "+k] = k + "=" + v
	}
	for k, v := range c.V {
		real["-v "+k] = k + "=" + v
	}
	for k, v := range c.E {
		real["-e "+k] = k + "=" + v
	}
	last := map[string]int{}
	for i, g := range seq {
		if len(g) == 2 && (g[0] == "-s" || g[0] == "-v" || g[0] == "-e") {
			last[g[0]+" "+strings.SplitN(g[1], "=", 2)[0]] = i
		}
	}
	var a []string
	for i, g := range seq {
		if len(g) == 2 && (g[0] == "-s" || g[0] == "-v" || g[0] == "-e") {
			id := g[0] + " " + strings.SplitN(g[1], "=", 2)[0]
			if r, ok := real[id]; ok && last[id] != i && g[1] == r {
				// the real value stands before an overridden one: swap them
				g, seq[last[id]] = seq[last[id]], g
			}
		}
		a = append(a, g...)
	}
	return append(a, c.Args...)
}

func (c *c20Case) materialise(dir string) error {
	for i, f := range c.Files {
		p := filepath.Join(dir, f.Path)
		if err := os.MkdirAll(filepath.Dir(p), 0o755); err != nil {
			return err
		}
		switch f.Kind {
		case "dangling":
			if err := os.Symlink(filepath.Join(dir, "no-such-target"), p); err != nil {
				return err
			}
		case "link":
			target := filepath.Join(dir, ".targets", fmt.Sprintf("t%d", i))
			if err := os.MkdirAll(filepath.Dir(target), 0o755); err != nil {
				return err
			}
			if err := os.WriteFile(target, f.Data, 0o644); err != nil {
				return err
			}
			if err := os.Symlink(target, p); err != nil {
				return err
			}
		default:
			if err := os.WriteFile(p, f.Data, 0o644); err != nil {
				return err
			}
		}
	}
	return nil
}

func typeOfPath(p string) string {
	switch strings.ToLower(filepath.Ext(p)) {
	case ".xml", ".svg", ".xsl":
		return "xml"
	case ".html", ".htm":
		return "html"
	case ".json":
		return "json"
	}
	return ""
}

// cliInput is one input the CLI processes: the file (clean path relative to
// the work directory, "-" for stdin) and the path the tool was told about it
// (the argument as spelled for a file argument; the joined path for a file
// found below a directory argument).
type cliInput struct {
	file  string
	shown string
}

// walkOrder lists the files the CLI processes, in its order (filepath.WalkDir
// is lexical), for the given arguments.  Arguments may be spelled with "./",
// doubled or trailing slashes and ".." segments.
func (c *c20Case) walkOrder() (files []cliInput, skippedDirs []string) {
	isDir := func(p string) bool {
		for _, f := range c.Files {
			if strings.HasPrefix(f.Path, p+"/") {
				return true
			}
		}
		return false
	}
	for _, a := range c.Args {
		clean := path.Clean(a)
		switch {
		case a == "-":
			files = append(files, cliInput{"-", "-"})
		case isDir(clean):
			if !c.R {
				skippedDirs = append(skippedDirs, a)
				continue
			}
			var under []string
			for _, f := range c.Files {
				if strings.HasPrefix(f.Path, clean+"/") {
					under = append(under, f.Path)
				}
			}
			// WalkDir order: lexical per directory level
			sort.Slice(under, func(i, j int) bool {
				return strings.ReplaceAll(under[i], "/", "\x00") < strings.ReplaceAll(under[j], "/", "\x00")
			})
			for _, u := range under {
				files = append(files, cliInput{u, u})
			}
		default:
			files = append(files, cliInput{clean, a})
		}
	}
	return
}

func readAs(kind string, data []byte, c *c20Case) (store.Cursor, error) {
	defer func() { recover() }()
	switch kind {
	case "xml":
		return xsel.ReadXml(bytes.NewReader(data), func(d *xml.Decoder) {
			d.Strict = !c.U
			d.Entity = c.E
			if d.Entity == nil {
				d.Entity = map[string]string{}
			}
		})
	case "html":
		return xsel.ReadHtml(bytes.NewReader(data))
	case "json":
		return xsel.ReadJson(bytes.NewReader(data))
	}
	return nil, fmt.Errorf("no type")
}

type cliExpect struct {
	stdout    string    // records prefixed with the path as the tool was told it
	stdoutAlt string    // records prefixed with the cleaned path (it names the same file)
	mRecords  []mRecord // for -m: the node behind every output line
	diagnosed []string  // paths that must be named on stderr
}

type mRecord struct {
	path  string // clean path of the file
	shown string // the path as the tool was told it
	cur   store.Cursor
}

// expectCLI derives the expected output through the library API.
func expectCLI(c *c20Case) (*cliExpect, error) {
	exp := &cliExpect{}
	g, err := xsel.BuildExpr(c.Expr)
	if err != nil {
		return nil, fmt.Errorf("bad case: %v", err)
	}
	var set []xsel.ContextApply
	for k, v := range c.S {
		set = append(set, xsel.WithNS(k, v))
	}
	for k, v := range c.V {
		name, err := xsel.GetQName(k, c.S)
		if err != nil {
			return nil, fmt.Errorf("bad case: %v", err)
		}
		set = append(set, xsel.WithVariableName(name, xsel.String(v)))
	}
	files, skipped := c.walkOrder()
	exp.diagnosed = append(exp.diagnosed, skipped...)
	byPath := map[string]cliFile{}
	for _, f := range c.Files {
		byPath[f.Path] = f
	}
	var sb, sbAlt strings.Builder
	for _, in := range files {
		p := in.file
		var data []byte
		kind := c.T
		if p == "-" {
			data = c.Stdin
			if kind == "" {
				exp.diagnosed = append(exp.diagnosed, "stdin")
				continue
			}
		} else {
			f, ok := byPath[p]
			if !ok {
				exp.diagnosed = append(exp.diagnosed, in.shown)
				continue
			}
			if kind == "" {
				kind = typeOfPath(p)
			}
			if kind == "" || f.Kind == "dangling" {
				exp.diagnosed = append(exp.diagnosed, in.shown)
				continue
			}
			data = f.Data
		}
		cur, err := readAs(kind, data, c)
		if err != nil || cur == nil {
			exp.diagnosed = append(exp.diagnosed, in.shown)
			continue
		}
		res, err := safeExec(cur, &g, set...)
		if err != nil {
			exp.diagnosed = append(exp.diagnosed, in.shown)
			continue
		}
		prefix, prefixAlt := in.shown+": ", p+": "
		if c.N || p == "-" {
			prefix, prefixAlt = "", ""
		}
		ns, isNS := res.(xsel.NodeSet)
		switch {
		case isNS && len(ns) == 0:
		case isNS && c.M:
			for _, n := range ns {
				exp.mRecords = append(exp.mRecords, mRecord{p, in.shown, n})
			}
		case isNS && c.A:
			for _, n := range ns {
				sb.WriteString(prefix + xsel.GetCursorString(n) + "\n")
				sbAlt.WriteString(prefixAlt + xsel.GetCursorString(n) + "\n")
			}
		default:
			sb.WriteString(prefix + res.String() + "\n")
			sbAlt.WriteString(prefixAlt + res.String() + "\n")
		}
	}
	exp.stdoutAlt = sbAlt.String()
	exp.stdout = sb.String()
	return exp, nil
}

// sameSubtree compares two cursor subtrees by expanded names, attributes (as
// a set), text, comments and PIs; namespace nodes are not compared.
func sameSubtree(a, b store.Cursor, path string) error {
	ka, kb := xmodel.KindOfCursor(a), xmodel.KindOfCursor(b)
	if ka != kb {
		return fmt.Errorf("%s: %s vs %s", path, xmodel.DescribeCursor(a), xmodel.DescribeCursor(b))
	}
	if ka != xmodel.Root && xmodel.DescribeCursor(a) != xmodel.DescribeCursor(b) {
		return fmt.Errorf("%s: selected %s, record parses to %s", path, xmodel.DescribeCursor(a), xmodel.DescribeCursor(b))
	}
	attrs := func(c store.Cursor) []string {
		var out []string
		for _, x := range c.Attributes() {
			out = append(out, xmodel.DescribeCursor(x))
		}
		sort.Strings(out)
		return out
	}
	if fmt.Sprint(attrs(a)) != fmt.Sprint(attrs(b)) {
		return fmt.Errorf("%s: attributes %v, record parses to %v", path, attrs(a), attrs(b))
	}
	ca, cb := a.Children(), b.Children()
	if len(ca) != len(cb) {
		var da, db []string
		for _, x := range ca {
			da = append(da, xmodel.DescribeCursor(x))
		}
		for _, x := range cb {
			db = append(db, xmodel.DescribeCursor(x))
		}
		return fmt.Errorf("%s: children %v, record parses to %v", path, da, db)
	}
	for i := range ca {
		if err := sameSubtree(ca[i], cb[i], fmt.Sprintf("%s/%d", path, i)); err != nil {
			return err
		}
	}
	return nil
}

func checkC20(c *c20Case) error {
	bin, err := cliBinary(false)
	if err != nil {
		return fmt.Errorf("harness: %v", err)
	}
	dir, err := os.MkdirTemp(envOut, "c20-")
	if err != nil {
		return fmt.Errorf("harness: %v", err)
	}
	defer os.RemoveAll(dir)
	if err := c.materialise(dir); err != nil {
		return fmt.Errorf("harness: %v", err)
	}
	exp, err := expectCLI(c)
	if err != nil {
		return err
	}
	cmd := exec.Command(bin, c.argv()...)
	cmd.Dir = dir
	cmd.Stdin = bytes.NewReader(c.Stdin)
	var stdout, stderr bytes.Buffer
	cmd.Stdout, cmd.Stderr = &stdout, &stderr
	runErr := cmd.Run()
	st.Eval(1)
	if ee, ok := runErr.(*exec.ExitError); ok && ee.ExitCode() == 2 && strings.Contains(stderr.String(), "panic:") {
		return fmt.Errorf("xsel %q crashed: %s", c.argv(), firstLine(stderr.String()))
	}
	// every input that cannot be processed produces a diagnostic on stderr
	// (the wording is the tool's own: only its presence is required; whether it
	// names the input is recorded as a class, not demanded)
	if len(exp.diagnosed) > 0 && strings.TrimSpace(stderr.String()) == "" {
		return fmt.Errorf("xsel %q: %v could not be processed but nothing was written to stderr", c.argv(), exp.diagnosed)
	}
	for _, p := range exp.diagnosed {
		if p != "stdin" && p != "-" && strings.Contains(stderr.String(), p) {
			st.Class("diagnostic names the input")
		}
	}
	if n := strings.Count(stderr.String(), "\n"); n < len(exp.diagnosed) {
		return fmt.Errorf("xsel %q: %d inputs could not be processed (%v) but stderr has only %d lines: %q", c.argv(), len(exp.diagnosed), exp.diagnosed, n, stderr.String())
	}
	if !c.M {
		if stdout.String() != exp.stdout && stdout.String() != exp.stdoutAlt {
			return fmt.Errorf("xsel %q printed %q, the library's results give %q (stderr %q)", c.argv(), stdout.String(), exp.stdout, stderr.String())
		}
		return nil
	}
	// -m: non-node-set results are printed as plain records
	lines := strings.Split(stdout.String(), "\n")
	if lines[len(lines)-1] == "" {
		lines = lines[:len(lines)-1]
	}
	if len(exp.mRecords) == 0 {
		if stdout.String() != exp.stdout && stdout.String() != exp.stdoutAlt {
			return fmt.Errorf("xsel %q printed %q, the library's results give %q", c.argv(), stdout.String(), exp.stdout)
		}
		return nil
	}
	for _, rec := range exp.mRecords {
		if !(c.T == "xml" || c.T == "" && typeOfPath(rec.path) == "xml") {
			// names of JSON / HTML trees need not be XML names; the encoder may
			// refuse them: only "no crash" is required for such records
			st.Discard("m-record-from-non-xml-input")
			return nil
		}
	}
	// attribute records the processing-instruction notation cannot hold (open findings): the record and the rest of
	// its file are lost; the other files' records are still judged
	affected := map[string]bool{}
	for _, rec := range exp.mRecords {
		if a, ok := rec.cur.Node().(node.Attribute); ok {
			if excluded("C20-m-attribute-namespace-in-pi-target") && strings.ContainsAny(a.Space(), "/?#=&%@ ") {
				st.KnownHit("C20-m-attribute-namespace-in-pi-target")
				affected[rec.path] = true
			}
			if excluded("C20-m-attribute-value-with-pi-end") && strings.Contains(a.AttributeValue(), "?>") {
				st.KnownHit("C20-m-attribute-value-with-pi-end")
				affected[rec.path] = true
			}
		}
	}
	if len(affected) > 0 {
		if c.N || affected["-"] {
			return nil // without prefixes the lost records cannot be told apart
		}
		for _, in := range c.Args {
			if strings.Contains(in, ": ") {
				return nil
			}
		}
		for _, f := range c.Files {
			if strings.Contains(f.Path, ": ") {
				return nil
			}
		}
		var keepRec []mRecord
		prefixes := map[string]bool{}
		for _, rec := range exp.mRecords {
			if affected[rec.path] {
				prefixes[rec.path+": "], prefixes[rec.shown+": "] = true, true
				continue
			}
			keepRec = append(keepRec, rec)
		}
		var keepLines []string
	nextLine:
		for _, l := range lines {
			for pre := range prefixes {
				if strings.HasPrefix(l, pre) {
					continue nextLine
				}
			}
			keepLines = append(keepLines, l)
		}
		exp.mRecords, lines = keepRec, keepLines
		if len(exp.mRecords) == 0 {
			return nil
		}
	}
	plain := 0
	if exp.stdout != "" {
		plain = strings.Count(exp.stdout, "\n")
	}
	if len(lines) != len(exp.mRecords)+plain {
		return fmt.Errorf("xsel %q printed %d lines for %d selected nodes (one single-line record per node): %q (stderr %q)", c.argv(), len(lines), len(exp.mRecords)+plain, stdout.String(), stderr.String())
	}
	if plain > 0 {
		return nil // mixed record kinds: only the count is checked
	}
	for i, rec := range exp.mRecords {
		line := lines[i]
		if !(c.N || rec.path == "-") {
			pre := rec.shown + ": "
			if !strings.HasPrefix(line, pre) {
				// the cleaned path names the same file
				pre = rec.path + ": "
			}
			if !strings.HasPrefix(line, pre) {
				return fmt.Errorf("xsel %q: record %d %q lacks the prefix %q", c.argv(), i, line, rec.shown+": ")
			}
			line = line[len(pre):]
		}
		switch xmodel.KindOfCursor(rec.cur) {
		case xmodel.Attr, xmodel.NS:
			continue // printed in the CLI's own PI notation: one line per node is all that is checked
		}
		if typeOfPath(rec.path) != "xml" && c.T != "xml" {
			continue // JSON/HTML names need not be XML names
		}
		if excluded("C20-m-newline-in-comment-or-pi") && hasNewlineInCommentOrPI(rec.cur) {
			st.KnownHit("C20-m-newline-in-comment-or-pi")
			continue
		}
		if xmodel.KindOfCursor(rec.cur) == xmodel.Text {
			// character data is only data inside an element (white space at top level is not): the
			// record of a text node must be the content of <w>...</w> that reads back as that text
			back, err := xsel.ReadXml(strings.NewReader("<w>" + line + "</w>"))
			if err != nil {
				return fmt.Errorf("xsel %q: record %d %q does not parse as character data: %v", c.argv(), i, line, err)
			}
			if got, want := xsel.GetCursorString(back), xsel.GetCursorString(rec.cur); got != want || len(back.Children()[0].Children()) > 1 {
				return fmt.Errorf("xsel %q: record %d %q reads back as %q, the selected text node is %q", c.argv(), i, line, got, want)
			}
			continue
		}
		back, err := xsel.ReadXml(strings.NewReader(line))
		if err != nil {
			return fmt.Errorf("xsel %q: record %d %q does not parse as XML: %v", c.argv(), i, line, err)
		}
		want := rec.cur
		var got store.Cursor = back
		if xmodel.KindOfCursor(want) != xmodel.Root {
			if len(back.Children()) != 1 {
				return fmt.Errorf("xsel %q: record %d %q parses to %d top-level nodes, one node was selected (%s)", c.argv(), i, line, len(back.Children()), xmodel.DescribeCursor(want))
			}
			got = back.Children()[0]
		}
		if err := sameSubtree(want, got, ""); err != nil {
			return fmt.Errorf("xsel %q: record %d %q does not parse back to the selected node: %v", c.argv(), i, line, err)
		}
	}
	return nil
}

func hasNewlineInCommentOrPI(c store.Cursor) bool {
	switch v := c.Node().(type) {
	case node.Comment:
		return strings.Contains(v.CommentValue(), "\n")
	case node.ProcInst:
		return strings.Contains(v.ProcInstValue(), "\n")
	}
	for _, x := range c.Children() {
		if hasNewlineInCommentOrPI(x) {
			return true
		}
	}
	return false
}

func genCLIFileData(t *rapid.T, kind string, bad bool) []byte {
	switch kind {
	case "xml":
		ev := xmodel.Gen(t, xmodel.GenCfg{MaxDepth: 3, MaxKids: 3, MaxTop: 1, XMLSafe: true, XMLEverywhere: true, Undeclare: true,
			Names: []string{"a", "b", "c", "a", "b", "c", "link", "meta", "br", "col", "LINK"}, Values: []string{"1", "2", "x y", "<&>", "é", "a\"b", "line\nbreak", " pad ", "10", "\n", "\n  ", " ", "\t\n", "a\n", "?>", "]]>", "-->"}})
		b, _, _, ok := serialise(t, xmodel.Build(ev), true)
		if !ok {
			b = []byte("<a/>")
		}
		if bad {
			return b[:len(b)/2+1]
		}
		return b
	case "json":
		var sb strings.Builder
		renderJSON(t, genJval(t, 2), &sb)
		if bad {
			return []byte(sb.String() + "]")
		}
		return []byte(sb.String())
	default:
		if bad {
			return []byte("no doctype <p>x")
		}
		return []byte(genSoup(t))
	}
}

func TestC20(t *testing.T) {
	runWitnesses(t, "C20")
	runProp(t, "cli", 6000, 40000, func(t *rapid.T) {
		c := &c20Case{}
		exts := map[string]string{"xml": ".xml", "json": ".json", "html": ".html"}
		dirs := []string{"", "d/", "d/sub/", "e/"}
		nFiles := rapid.IntRange(1, 6).Draw(t, "nFiles")
		mode := rapid.IntRange(0, 9).Draw(t, "mode") // mostly XML-only trees
		for i := 0; i < nFiles; i++ {
			kind := "xml"
			if mode >= 7 {
				kind = []string{"xml", "json", "html"}[rapid.IntRange(0, 2).Draw(t, "kind")]
			}
			ext := exts[kind]
			if rapid.IntRange(0, 5).Draw(t, "extCase") == 0 {
				ext = map[string]string{".xml": ".XML", ".json": ".Json", ".html": ".HTM"}[ext]
			}
			stem := "f"
			if rapid.IntRange(0, 3).Draw(t, "oddName") == 0 {
				stem = []string{"sp ace", "é", "a:b", ".hid", "x.y", "colon: x", "q'uote", "tab\tx", "#h", "a&b", "50%off", "%s%d", "100%", "a%20b"}[rapid.IntRange(0, 13).Draw(t, "stem")]
				st.Class("unusual file name")
			}
			f := cliFile{Kind: "file", Path: fmt.Sprintf("%s%s%d%s", dirs[rapid.IntRange(0, len(dirs)-1).Draw(t, "dir")], stem, i, ext)}
			switch rapid.IntRange(0, 11).Draw(t, "special") {
			case 0:
				f.Data = genCLIFileData(t, kind, true) // malformed
			case 1:
				f.Kind = "dangling"
			case 3:
				// a symbolic link to a regular file with the same contents elsewhere (it is read like any other file)
				f.Kind = "link"
				f.Data = genCLIFileData(t, kind, false)
			case 2:
				f.Path = strings.TrimSuffix(f.Path, ext) + []string{".txt", "", ".svg"}[rapid.IntRange(0, 2).Draw(t, "oddExt")]
				f.Data = genCLIFileData(t, "xml", false)
			default:
				f.Data = genCLIFileData(t, kind, false)
			}
			c.Files = append(c.Files, f)
		}
		// arguments: files, directories, a missing path, stdin
		seenDir := map[string]bool{}
		for _, f := range c.Files {
			if d := filepath.Dir(f.Path); d != "." && rapid.Bool().Draw(t, "argIsDir") {
				top := strings.SplitN(d, "/", 2)[0]
				if !seenDir[top] {
					seenDir[top] = true
					c.Args = append(c.Args, top)
				}
				continue
			}
			covered := false
			for d := range seenDir {
				if strings.HasPrefix(f.Path, d+"/") {
					covered = true
				}
			}
			if !covered {
				c.Args = append(c.Args, f.Path)
			}
		}
		if rapid.IntRange(0, 7).Draw(t, "missingArg") == 0 {
			c.Args = append(c.Args, "missing.xml")
		}
		c.A, c.M, c.N, c.R, c.U = rapid.Bool().Draw(t, "a"), rapid.IntRange(0, 2).Draw(t, "m") == 0, rapid.Bool().Draw(t, "n"), rapid.IntRange(0, 3).Draw(t, "r") != 0, rapid.IntRange(0, 5).Draw(t, "u") == 0
		if rapid.IntRange(0, 7).Draw(t, "forceType") == 0 {
			c.T = []string{"xml", "json", "html"}[rapid.IntRange(0, 2).Draw(t, "t")]
		}
		if rapid.IntRange(0, 7).Draw(t, "stdin") == 0 {
			c.Args = append(c.Args, "-")
			c.Stdin = genCLIFileData(t, "xml", false)
			if c.T == "" && rapid.Bool().Draw(t, "stdinTyped") {
				c.T = "xml"
			}
		}
		if rapid.IntRange(0, 3).Draw(t, "explicitC1") == 0 {
			c.C = 1
		}
		if rapid.IntRange(0, 2).Draw(t, "entities") == 0 {
			c.E = map[string]string{"company": "ACME", "co": "x"}
		}
		// some XML files reference the entity: they parse only when -e binds it
		for i := range c.Files {
			f := &c.Files[i]
			if f.Kind == "file" && typeOfPath(f.Path) == "xml" && rapid.IntRange(0, 3).Draw(t, "entityRef") == 0 {
				if j := bytes.LastIndex(f.Data, []byte("</")); j > 0 {
					f.Data = append(append(append([]byte{}, f.Data[:j]...), []byte("&company;")...), f.Data[j:]...)
				}
			}
		}
		c.S = map[string]string{"x": "urn:x", "y": "urn:y"}
		// -v binds STRINGS, exactly as given (numeral-looking or blank-padded values included)
		c.V = map[string]string{"val": []string{"1", "x y", "é", "007", "1.50", " b ", "0", " 12 ", "", "false", "a=b"}[rapid.IntRange(0, 10).Draw(t, "varVal")], "x:nv": "2"}
		exprs := []string{"/*", "//a", "//b", "//*", "//text()", "//@*", "count(//*)", "string(//a)", "//a = $val", "//*[. = $val]", "//x:*", "//y:a",
			"name(/*)", "//comment()", "//processing-instruction()", "/", "//a/..", "//namespace::node()", "boolean(//b)", "concat($val, $x:nv)", "//*[@id]", "//a/ancestor::*", "/nosuch", "//c | //a",
			"/#obj", "//#arr/text()", "//p", "//*[text()]", "sum(//a)", "substring('é€x', 2)", "$val", "1 div 0", "//*[contains(., 'ACME')]", "string(/*)",
			"string-length($val)", "concat('[', $val, ']')", "//*[$val]", "boolean($val)", "$val = 7", "//*[. = $val]/..", "concat($x:nv, '|', string-length($x:nv))"}
		c.Expr = exprs[rapid.IntRange(0, len(exprs)-1).Draw(t, "expr")]
		if len(c.Args) == 0 {
			c.Args = []string{c.Files[0].Path}
		}
		// the arguments in any order (stdin first, in the middle or last)
		if len(c.Args) > 1 && rapid.Bool().Draw(t, "shuffleArgs") {
			c.Args = rapid.Permutation(c.Args).Draw(t, "argOrder")
		}
		// other spellings of the same arguments
		for i, a := range c.Args {
			if a == "-" || rapid.IntRange(0, 3).Draw(t, "respell") != 0 {
				continue
			}
			isDirArg := seenDir[a]
			switch k := rapid.IntRange(0, 4).Draw(t, "spelling"); {
			case k == 0:
				c.Args[i] = "./" + a
			case k == 1:
				c.Args[i] = "././" + a
			case k == 2 && isDirArg:
				c.Args[i] = a + "/"
			case k == 3 && strings.Contains(a, "/"):
				c.Args[i] = strings.Replace(a, "/", "//", 1)
			case k == 4 && strings.Contains(a, "/"):
				c.Args[i] = strings.SplitN(a, "/", 2)[0] + "/../" + a
			default:
				c.Args[i] = "./" + a
			}
			st.Class("argument spelled unclean")
		}
		// -s/-v/-e keys given more than once: the last one counts (a prefix
		// rebound after a -v that uses it, a variable given twice around its -s)
		if rapid.IntRange(0, 2).Draw(t, "repeatFlags") == 0 {
			pool := [][2]string{{"-s", "x=urn:y"}, {"-s", "y=urn:x"}, {"-s", "x=urn:other"}, {"-v", "x:nv=overridden"}, {"-v", "val=overridden"}, {"-v", "val="}, {"-s", "x="}}
			for k := range c.E {
				pool = append(pool, [2]string{"-e", k + "=overridden"})
			}
			sort.Slice(pool, func(i, j int) bool { return pool[i][0]+pool[i][1] < pool[j][0]+pool[j][1] })
			for n := rapid.IntRange(1, 3).Draw(t, "repeats"); n > 0; n-- {
				c.Over = append(c.Over, pool[rapid.IntRange(0, len(pool)-1).Draw(t, "repeat")])
			}
			st.Class("a -s/-v/-e key given more than once")
		}
		// the flags in any order
		if rapid.Bool().Draw(t, "shuffleFlags") || len(c.Over) > 0 {
			c.Perm = rapid.Permutation([]int{0, 1, 2, 3, 4, 5, 6, 7, 8, 9, 10, 11, 12, 13, 14, 15, 16, 17}).Draw(t, "flagOrder")
			st.Class("flags shuffled")
		}
		st.Class(fmt.Sprintf("flags a=%v m=%v n=%v r=%v", c.A, c.M, c.N, c.R))
		if len(c.Files) >= 2 {
			key := fmt.Sprint(c.argv(), len(c.Files))
			for _, f := range c.Files {
				key += f.Path + fmt.Sprint(len(f.Data))
			}
			st.NonTrivial(key)
			if len(c.Files) <= 3 {
				var fs []string
				for _, f := range c.Files {
					fs = append(fs, f.Path+" ("+f.Kind+", "+fmt.Sprint(len(f.Data))+" bytes)")
				}
				st.Sample(key, map[string]any{"argv": c.argv(), "files": fs})
			}
		}
		c20CLI.run(t, c)
	})
}
