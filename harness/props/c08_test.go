package props

import (
	"fmt"
	"strings"
	"sync"
	"testing"

	"pgregory.net/rapid"

	"verif/xast"
	"verif/xmodel"
	"verif/xparse"
	"verif/xref"
)

// C08 - every XPath 1.0 expression parses to the tree its grammar defines;
// other strings are rejected with an error.

type c08Case struct {
	Events []xmodel.Event    `json:"events"`
	Ctx    string            `json:"ctx"`
	Expr   *xast.Expr        `json:"expr"`
	Texts  []string          `json:"texts"` // renderings of Expr
	NS     map[string]string `json:"ns,omitempty"`
	Vars   []varBinding      `json:"vars,omitempty"`
}

type c08NegCase struct {
	Text     string `json:"text"`
	Mutation string `json:"mutation"`
	From     string `json:"from"`
}

var c08Pos = reg("C08", "c08-renderings", checkC08Pos)
var c08Sandwich = reg("C08", "c08-sandwich", checkC08Sandwich)

type c08TextCase struct {
	Text string `json:"text"`
}

var c08Fixed struct {
	once sync.Once
	p    *prepared
	err  error
}

func c08FixedDoc() (*prepared, error) {
	c08Fixed.once.Do(func() {
		ev, err := xmlToEvents(string(c15DocXML))
		if err != nil {
			c08Fixed.err = err
			return
		}
		c08Fixed.p, c08Fixed.err = prepareDoc(ev)
	})
	return c08Fixed.p, c08Fixed.err
}

// checkC08Sandwich judges an arbitrary string with the harness's own
// recogniser: strictly valid => BuildExpr accepts (and, when the reference
// can evaluate it, Exec returns that value); BuildExpr accepts => leniently
// valid.  Strings only the lenient mode accepts are not judged.
func checkC08Sandwich(c *c08TextCase) error {
	ast, _, serr := xparse.Parse(c.Text, xparse.Strict)
	_, feats, lerr := xparse.Parse(c.Text, xparse.Lenient)
	g, berr := safeBuild(c.Text)
	if pe, ok := berr.(*panicError); ok {
		return fmt.Errorf("BuildExpr(%q) panicked: %v", c.Text, pe.v)
	}
	st.Eval(1)
	switch {
	case serr == nil && berr != nil:
		return fmt.Errorf("BuildExpr(%q) rejected a syntactically valid XPath 1.0 expression: %v", c.Text, firstLine(berr.Error()))
	case berr == nil && lerr != nil && strings.Contains(c.Text, "\\") && strings.ContainsAny(c.Text, "'\"") && excluded("C08-backslash-in-double-quoted-literal"):
		// the generated lexer reads backslash escapes inside literals (known
		// findings C08-backslash-..., C08-literal-ending-in-backslash): where a
		// literal ends is then ambiguous in ways the recogniser does not enumerate
		st.KnownHit("C08-backslash-in-double-quoted-literal")
		return nil
	case berr == nil && lerr != nil:
		return fmt.Errorf("BuildExpr(%q) accepted a string that is not an XPath 1.0 expression (%v)", c.Text, lerr)
	case berr == nil && g.BSR == nil:
		return fmt.Errorf("BuildExpr(%q) returned an empty query and a nil error", c.Text)
	}
	if serr != nil {
		if lerr == nil {
			for f := range feats {
				st.Class("lenient-only: " + f)
			}
			st.Discard("lenient-only")
		}
		return nil
	}
	// strictly valid and accepted: the compiled query must mean what the string means
	p, err := c08FixedDoc()
	if err != nil {
		return fmt.Errorf("harness: %v", err)
	}
	ec := &evalCase{Ctx: "/", Expr: ast, Text: c.Text, NS: map[string]string{"p": "urn:x", "x": "urn:x"},
		Vars: []varBinding{{Local: "n", T: "num", Num: "2.5"}, {Local: "s", T: "str", Str: "ab"}, {Local: "v", T: "nodes", Nodes: []string{"/0/0", "/0"}}}}
	set, env, err := ec.settings(p)
	if err != nil {
		return fmt.Errorf("harness: %v", err)
	}
	if excluded("C06-round-negative-tie") {
		env.RoundHalfAwayNegative = true
	}
	if excluded("C08-slash-star-ambiguity") && slashStarAmbiguous(c.Text) {
		st.KnownHit("C08-slash-star-ambiguity")
		return nil
	}
	ref, rerr := env.Eval(ast, xref.Ctx{Node: p.doc.Root, Pos: 1, Size: 1})
	if rerr == nil && hasUnboundReference(ast, env) {
		// the reference resolves names when it evaluates them; whether an
		// unbound name in a part that is never evaluated is an error is not
		// stated by the properties
		rerr = fmt.Errorf("unbound reference somewhere in the expression")
	}
	if rerr != nil || env.Unpinned != "" {
		// the reference cannot say (unknown function, arity, type error, out of scope): only "no panic"
		if _, xerr := safeExec(p.root, &g, set...); xerr != nil {
			if pe, ok := xerr.(*panicError); ok {
				return fmt.Errorf("Exec(%q) panicked: %v", c.Text, pe.v)
			}
		}
		return nil
	}
	impl, xerr := safeExec(p.root, &g, set...)
	if xerr != nil {
		return fmt.Errorf("Exec(%q) failed: %v; the expression means %s", c.Text, xerr, ref.Describe())
	}
	if err := compareResult(impl, ref, p.loc, wantsAscending(ast), passesCallerOrder(ast)); err != nil {
		return fmt.Errorf("Exec(%q): %v", c.Text, err)
	}
	st.Class("strict-valid-evaluated")
	return nil
}

var c08Neg = reg("C08", "c08-reject", checkC08Neg)

func checkC08Pos(c *c08Case) error {
	p, err := prepareDoc(c.Events)
	if err != nil {
		st.Discard("document-not-mirrored")
		return nil
	}
	for _, text := range c.Texts {
		ec := &evalCase{Events: c.Events, Ctx: c.Ctx, Expr: c.Expr, Text: text, NS: c.NS, Vars: c.Vars}
		out, why, err := evalPrepared(ec, p)
		if out == discarded {
			st.Discard(why)
			return nil
		}
		st.Eval(1)
		if err != nil {
			return err
		}
	}
	return nil
}

func checkC08Neg(c *c08NegCase) error {
	g, err := safeBuild(c.Text)
	if pe, ok := err.(*panicError); ok {
		return fmt.Errorf("BuildExpr(%q) panicked: %v", c.Text, pe.v)
	}
	if err == nil {
		_ = g
		return fmt.Errorf("BuildExpr(%q) accepted a string that is not an XPath 1.0 expression (%s of %q)", c.Text, c.Mutation, c.From)
	}
	return nil
}

var builtinNames = map[string]bool{"last": true, "position": true, "count": true, "local-name": true, "namespace-uri": true, "name": true, "string": true, "concat": true,
	"starts-with": true, "contains": true, "substring-before": true, "substring-after": true, "substring": true, "string-length": true, "normalize-space": true, "translate": true,
	"boolean": true, "not": true, "true": true, "false": true, "lang": true, "number": true, "sum": true, "floor": true, "ceiling": true, "round": true}

func hasUnboundReference(x *xast.Expr, env *xref.Env) bool {
	bad := false
	prefixOK := func(q string) bool {
		if i := strings.IndexByte(q, ':'); i >= 0 {
			_, ok := env.NS[q[:i]]
			return ok
		}
		return true
	}
	xast.Walk(x, func(e *xast.Expr) {
		switch e.K {
		case "var":
			if !prefixOK(e.S) {
				bad = true
				return
			}
			name := xref.Name{Local: e.S}
			if i := strings.IndexByte(e.S, ':'); i >= 0 {
				name = xref.Name{Space: env.NS[e.S[:i]], Local: e.S[i+1:]}
			}
			if _, ok := env.Vars[name]; !ok {
				bad = true
			}
		case "call":
			if strings.Contains(e.S, ":") || !builtinNames[e.S] {
				bad = true
			}
		}
	})
	xast.WalkSteps(x, func(s *xast.Step) {
		if s.Test.P != "" {
			if _, ok := env.NS[s.Test.P]; !ok {
				bad = true
			}
		}
	})
	return bad
}

var allBinOps = []string{"or", "and", "=", "!=", "<", "<=", ">", ">=", "+", "-", "*", "div", "mod"}

// genC08 draws operator-heavy expressions: any operand type under any
// operator, chains of equal and different precedence, unary minus chains,
// unions inside arithmetic.
func genC08(g *xast.G, depth int) *xast.Expr {
	t := g.T
	if depth <= 0 {
		switch rapid.IntRange(0, 7).Draw(t, "leaf") {
		case 6:
			// path continued after a filter expression: (E)/x, (E)//x, $v//x, (E)[p]//x
			f := xast.Filter(g.NodeSet(0, false), nil, g.RelPath(0, 2).Steps...)
			if rapid.Bool().Draw(t, "filterPred") {
				f.BP = append(f.BP, g.Pred(0))
			}
			f.Steps[0].DS = rapid.Bool().Draw(t, "filterDS")
			return f
		case 7:
			if len(g.Env.NodeVars) > 0 {
				f := xast.Filter(xast.Var(g.Env.NodeVars[0]), nil, g.RelPath(0, 2).Steps...)
				f.Steps[0].DS = rapid.Bool().Draw(t, "varDS")
				return f
			}
			return g.NodeSet(1, false)
		case 0:
			return g.Number(0)
		case 1:
			return g.String(0)
		case 2:
			return xast.Path(false, xast.S("child", g.Test("child")))
		case 3:
			return xast.Path(false, xast.S("self", xast.NodeT()))
		}
		return g.NodeSet(1, false)
	}
	switch k := rapid.IntRange(0, 11).Draw(t, "c08Kind"); {
	case k <= 6:
		op := allBinOps[rapid.IntRange(0, len(allBinOps)-1).Draw(t, "binop")]
		return xast.Bin(op, genC08(g, depth-1), genC08(g, depth-1))
	case k == 7:
		e := genC08(g, depth-1)
		for i, n := 0, rapid.IntRange(1, 3).Draw(t, "negs"); i < n; i++ {
			e = xast.Neg(e)
		}
		return e
	case k == 8:
		return xast.Union(g.NodeSet(1, false), g.NodeSet(1, false))
	case k == 9:
		// left-nested chain of one operator: associativity is visible
		op := []string{"-", "div", "mod", "=", "<", "!="}[rapid.IntRange(0, 5).Draw(t, "chainOp")]
		e := genC08(g, 0)
		for i, n := 0, rapid.IntRange(2, 3).Draw(t, "chainLen"); i < n; i++ {
			e = xast.Bin(op, e, genC08(g, 0))
		}
		return e
	case k == 10:
		return g.Any(depth)
	}
	return xast.Call("count", g.NodeSet(1, false))
}

func opStats(x *xast.Expr) (nBin int, precs map[int]int, keywordName, tightMinus bool) {
	precs = map[int]int{}
	prec := map[string]int{"or": 1, "and": 2, "=": 3, "!=": 3, "<": 4, "<=": 4, ">": 4, ">=": 4, "+": 5, "-": 5, "*": 6, "div": 6, "mod": 6, "|": 8}
	xast.Walk(x, func(e *xast.Expr) {
		if p, ok := prec[e.K]; ok {
			nBin++
			precs[p]++
		}
	})
	xast.WalkSteps(x, func(s *xast.Step) {
		switch s.Test.L {
		case "child", "self", "text", "node", "comment", "ancestor", "parent", "attribute", "namespace", "descendant", "following", "preceding", "processing-instruction":
			keywordName = true
		}
		switch s.Test.P {
		case "child", "self", "text":
			keywordName = true
		}
	})
	return
}

// mutate turns a valid token list into a string that is not an XPath
// expression, by construction.
// isFunctionNameToken: the token before a '(' is a name (the parentheses are
// an argument list or a node type test, not a parenthesised expression).
func isFunctionNameToken(toks []string, i int) bool {
	s := toks[i]
	if s == "" {
		return false
	}
	r := []rune(s)[0]
	return r == '_' || r == '#' || r >= 'a' && r <= 'z' || r >= 'A' && r <= 'Z' || r > 127
}

func mutate(t *rapid.T, toks []string) (string, string) {
	join := xast.JoinTokens
	idxOf := func(pred func(string) bool) []int {
		var out []int
		for i, s := range toks {
			if pred(s) {
				out = append(out, i)
			}
		}
		return out
	}
	without := func(i int) []string {
		return append(append([]string{}, toks[:i]...), toks[i+1:]...)
	}
	insert := func(i int, s ...string) []string {
		return append(append(append([]string{}, toks[:i]...), s...), toks[i:]...)
	}
	lastTok := toks[len(toks)-1]
	endsWithSlash := lastTok == "/" || lastTok == "//"
	switch m := rapid.IntRange(0, 15).Draw(t, "mutation"); m {
	case 15:
		// characters that look like nothing but are not white space: byte order mark, zero-width space/joiner, soft hyphen, NUL
		inv := []string{"\ufeff", "\u200b", "\u200d", "\u00ad", "\x00", "\u2060"}[rapid.IntRange(0, 5).Draw(t, "invisible")]
		if rapid.Bool().Draw(t, "invisibleFirst") {
			return inv + join(toks), "invisible character"
		}
		return join(toks) + inv, "invisible character"
	case 0:
		if br := idxOf(func(s string) bool { return s == "(" || s == ")" || s == "[" || s == "]" }); len(br) > 0 {
			return join(without(br[rapid.IntRange(0, len(br)-1).Draw(t, "which")])), "unbalanced bracket"
		}
	case 1:
		op := []string{"+", "=", "!=", "<", "<=", ">", ">=", "|", "-", ","}[rapid.IntRange(0, 9).Draw(t, "dangling")]
		return join(append(append([]string{}, toks...), op)), "dangling operator"
	case 2:
		op := []string{"=", "|", "+", "!=", "<", ")", "]", ",", ">="}[rapid.IntRange(0, 8).Draw(t, "leading")]
		return join(append([]string{op}, toks...)), "leading operator"
	case 3:
		if br := idxOf(func(s string) bool { return s == "]" }); len(br) > 0 {
			i := br[rapid.IntRange(0, len(br)-1).Draw(t, "which")]
			return join(insert(i+1, "[", "]")), "empty predicate"
		}
		return join(append(append([]string{}, toks...), "[", "]")), "empty predicate"
	case 4:
		return join(append(append([]string{}, toks...), "+", "(", ")")), "empty parentheses"
	case 5:
		if ops := idxOf(func(s string) bool {
			switch s {
			case "+", "=", "!=", "<", "<=", ">", ">=", "|":
				return true
			}
			return false
		}); len(ops) > 0 {
			i := ops[rapid.IntRange(0, len(ops)-1).Draw(t, "which")]
			return join(insert(i, toks[i])), "doubled operator"
		}
	case 6:
		junk := []string{")", "]", "'abc", "\"abc", "$", ":", "::", "}", "{", "&", "%", "^", ";", "~", "?", "`", "\\", "1.2.3", "@"}[rapid.IntRange(0, 18).Draw(t, "junk")]
		if endsWithSlash && junk == "@" {
			junk = ")"
		}
		return join(append(append([]string{}, toks...), junk)), "junk suffix"
	case 7:
		ch := []string{"%", "^", "&", ";", "{", "}", "~", "?", "\\", "`"}[rapid.IntRange(0, 9).Draw(t, "illegal")]
		i := rapid.IntRange(0, len(toks)).Draw(t, "at")
		return join(insert(i, ch)), "illegal character"
	case 8:
		if vs := idxOf(func(s string) bool { return strings.HasPrefix(s, "$") }); len(vs) > 0 {
			i := vs[rapid.IntRange(0, len(vs)-1).Draw(t, "which")]
			mut := append([]string{}, toks...)
			mut[i] = "$ " + toks[i][1:]
			return join(mut), "white space after $"
		}
	case 9:
		if ax := idxOf(func(s string) bool { return s == "::" }); len(ax) > 0 {
			i := ax[rapid.IntRange(0, len(ax)-1).Draw(t, "which")]
			mut := append([]string{}, toks...)
			switch rapid.IntRange(0, 2).Draw(t, "axisMut") {
			case 0:
				mut[i-1] = "nosuchaxis"
			case 1:
				mut[i] = ":::"
			default:
				mut[i-1] = mut[i-1] + "x"
			}
			return join(mut), "bad axis"
		}
	case 10:
		if cm := idxOf(func(s string) bool { return s == "," }); len(cm) > 0 {
			i := cm[rapid.IntRange(0, len(cm)-1).Draw(t, "which")]
			if rapid.Bool().Draw(t, "dropComma") {
				// f(a b): two operands side by side; only sound when the
				// right operand cannot continue the left one
				if !strings.HasPrefix(toks[i+1], "-") && toks[i+1] != "(" && toks[i+1] != "[" && toks[i+1] != "/" && toks[i+1] != "//" && toks[i+1] != "*" && toks[i-1] != "/" && toks[i-1] != "//" &&
					toks[i+1] != "div" && toks[i+1] != "mod" && toks[i+1] != "and" && toks[i+1] != "or" {
					return join(without(i)), "missing comma"
				}
			}
			return join(insert(i, ",")), "doubled comma"
		}
	case 11:
		if ns := idxOf(func(s string) bool { return s != "" && strings.Trim(s, "0123456789.") == "" && s != "." && s != ".." }); len(ns) > 0 {
			i := ns[rapid.IntRange(0, len(ns)-1).Draw(t, "which")]
			mut := append([]string{}, toks...)
			mut[i] = toks[i] + []string{"e5", ".2.3", "..", "x"}[rapid.IntRange(0, 3).Draw(t, "numMut")]
			return join(mut), "malformed number"
		}
	case 13:
		// f(a,) and f(,a): a comma next to a parenthesis of an argument list
		if cl := idxOf(func(s string) bool { return s == ")" }); len(cl) > 0 {
			// closers of argument lists: the matching '(' follows a function name
			var calls [][2]int
			var stack []int
			for i, s := range toks {
				switch s {
				case "(":
					stack = append(stack, i)
				case ")":
					if len(stack) > 0 {
						o := stack[len(stack)-1]
						stack = stack[:len(stack)-1]
						if o > 0 && i > o+1 && isFunctionNameToken(toks, o-1) {
							calls = append(calls, [2]int{o, i})
						}
					}
				}
			}
			if len(calls) > 0 {
				c := calls[rapid.IntRange(0, len(calls)-1).Draw(t, "which")]
				if rapid.Bool().Draw(t, "trailing") {
					return join(insert(c[1], ",")), "comma before )"
				}
				return join(insert(c[0]+1, ",")), "comma after ("
			}
		}
	case 14:
		// an operator or separator where an operand belongs, anywhere in the string
		if len(toks) > 1 {
			i := rapid.IntRange(1, len(toks)-1).Draw(t, "at")
			switch toks[i-1] {
			case "(", "[", ",", "=", "!=", "<", "<=", ">", ">=", "+", "|":
				// (after a symbol that is an operator or opener wherever it
				// stands; never '=' itself, which would glue onto '<' and '>')
				op := []string{",", ")", "]", "|", "!=", ">="}[rapid.IntRange(0, 5).Draw(t, "stray")]
				return join(insert(i, op)), "stray operator"
			}
		}
	case 12:
		// unterminated literal: drop the closing quote of the last literal
		for i := len(toks) - 1; i >= 0; i-- {
			if q := toks[i][0]; (q == '\'' || q == '"') && len(toks[i]) >= 2 {
				rest := strings.Join(toks[i+1:], "")
				if !strings.ContainsRune(rest, rune(q)) {
					mut := append([]string{}, toks...)
					mut[i] = toks[i][:len(toks[i])-1]
					return join(mut), "unterminated literal"
				}
				break
			}
		}
	}
	return join(append(append([]string{}, toks...), ")")), "junk suffix"
}

func TestC08(t *testing.T) {
	runWitnesses(t, "C08")
	runProp(t, "renderings", 12000, 400000, func(t *rapid.T) {
		gc, p := genDocCase(t, caseOpts{cfg: xmodel.GenCfg{MaxDepth: 3, MaxKids: 3, Numeric: true, MaxTop: 1}, vars: true, nodeVars: true},
			func(g *xast.G, p *prepared) *xast.Expr { return genC08(g, 3) }, xast.Style{})
		if gc == nil {
			return
		}
		c := &c08Case{Events: gc.Events, Ctx: gc.Ctx, Expr: gc.Expr, NS: gc.NS, Vars: gc.Vars}
		ch := xast.RapidChooser{T: t}
		c.Texts = []string{
			xast.RenderMinimal(gc.Expr),
			xast.Render(gc.Expr, ch, xast.Style{Parens: true}),
			xast.Render(gc.Expr, ch, xast.Style{WS: true}),
			xast.Render(gc.Expr, ch, xast.Style{Abbrev: true}),
			xast.Render(gc.Expr, ch, xast.Style{Parens: true, WS: true, Abbrev: true}),
		}
		if rapid.IntRange(0, 39).Draw(t, "deepOrLong") == 0 {
			// the same expression inside 60-150 pairs of parentheses: redundant parentheses change nothing, however many
			n := []int{60, 84, 100, 128, 150}[rapid.IntRange(0, 4).Draw(t, "nParens")]
			c.Texts = append(c.Texts, strings.Repeat("(", n)+c.Texts[0]+strings.Repeat(")", n))
			st.Class("rendering inside many parentheses")
		}
		nBin, precs, kw, _ := opStats(gc.Expr)
		same := false
		for _, n := range precs {
			if n >= 2 {
				same = true
			}
		}
		tight := strings.Contains(c.Texts[0], "-") && !strings.Contains(c.Texts[0], " - ")
		st.Class(fmt.Sprintf("binary-operators=%d", min(nBin, 6)))
		if len(precs) >= 2 || same || kw || tight {
			key := c.Texts[0] + fmt.Sprint(len(c.Events))
			st.NonTrivial(key)
			if kw {
				st.Class("keyword-spelled-name")
			}
			if same {
				st.Class("same-precedence-chain")
			}
			if len(precs) >= 2 {
				st.Class("mixed-precedence")
			}
			if len(c.Events) <= 24 {
				st.Sample(key, map[string]any{"renderings": c.Texts, "events": eventStrings(c.Events)})
			}
		}
		_ = p
		c08Pos.run(t, c)
	})
	// token soup and lightly damaged expressions, judged by the recogniser sandwich
	soupVocab := []string{"a", "b", "r", "child", "self", "text", "node", "div", "mod", "and", "or", "x:a", "p:*", "*:a", "*", "/", "//", "|", "+", "-", "=", "!=", "<", "<=", ">", ">=",
		"(", ")", "[", "]", ",", ".", "..", "@", "::", "$n", "$v", "$x:n", "1", "2.5", ".5", "'s'", "\"d\"", "count", "string", "position", "last", "text()", "node()", "comment()",
		"child::", "ancestor::", "attribute::", "processing-instruction(", "id", "k", "a-b", "#obj", "é", " ", "  ", "\t"}
	runProp(t, "sandwich", 24000, 800000, func(t *rapid.T) {
		var text string
		switch rapid.IntRange(0, 3).Draw(t, "soupSource") {
		case 0:
			n := rapid.IntRange(1, 9).Draw(t, "soupLen")
			var sb strings.Builder
			for i := 0; i < n; i++ {
				sb.WriteString(soupVocab[rapid.IntRange(0, len(soupVocab)-1).Draw(t, "soupTok")])
			}
			text = sb.String()
		case 1:
			// a valid expression with one token deleted, duplicated or replaced by a vocabulary token
			g := &xast.G{T: t, Env: xast.GenEnv{ElemNames: []string{"a", "b", "r", "child", "a-b"}, AttrNames: []string{"id", "k"}, Prefixes: []string{"x", "p"}, NumVars: []string{"n"}, StrVars: []string{"s"}, NodeVars: []string{"v"}, PITargets: []string{"t"}}}
			toks := xast.Tokens(genC08(g, 2))
			i := rapid.IntRange(0, len(toks)-1).Draw(t, "at")
			switch rapid.IntRange(0, 4).Draw(t, "damage") {
			case 0:
				toks = append(toks[:i:i], toks[i+1:]...)
			case 1:
				toks = append(toks[:i+1:i+1], toks[i:]...)
			case 2:
				// a vocabulary token inserted
				toks = append(toks[:i:i], append([]string{soupVocab[rapid.IntRange(0, len(soupVocab)-1).Draw(t, "ins")]}, toks[i:]...)...)
			case 3:
				// a punctuation token inserted
				punct := []string{",", ")", "(", "[", "]", "/", "//", "|", "::", "@", "$", ".", "..", "*", ":", "-"}
				toks = append(toks[:i:i], append([]string{punct[rapid.IntRange(0, len(punct)-1).Draw(t, "punct")]}, toks[i:]...)...)
			default:
				toks[i] = soupVocab[rapid.IntRange(0, len(soupVocab)-1).Draw(t, "repl")]
			}
			text = xast.JoinTokens(toks)
			if rapid.Bool().Draw(t, "glue") {
				text = strings.Join(toks, "")
			}
		case 2:
			g := &xast.G{T: t, Env: xast.GenEnv{ElemNames: []string{"a", "b", "r"}, AttrNames: []string{"id", "k"}, Prefixes: []string{"x", "p"}, NumVars: []string{"n"}, StrVars: []string{"s"}, NodeVars: []string{"v"}}}
			text = xast.Render(genC08(g, 2), xast.RapidChooser{T: t}, drawStyle(t))
		default:
			text = rapid.StringOfN(rapid.SampledFrom([]rune("ab1 /*@[]().:$'\"|+-=<>!,é\t#_")), 0, 16, -1).Draw(t, "rawish")
		}
		c := &c08TextCase{Text: text}
		if len(lexTokens(text)) >= 2 {
			st.NonTrivial("sandwich|" + text)
			if len(text) < 80 {
				_, _, serr := xparse.Parse(text, xparse.Strict)
				st.Sample("sandwich|"+text, map[string]any{"text": text, "strictly valid": serr == nil})
			}
		}
		c08Sandwich.run(t, c)
	})
	runProp(t, "reject", 20000, 600000, func(t *rapid.T) {
		g := &xast.G{T: t, Env: xast.GenEnv{ElemNames: []string{"a", "b", "child", "a-b", "text"}, AttrNames: []string{"id", "k"}, Prefixes: []string{"x"},
			NumVars: []string{"n"}, StrVars: []string{"s"}, NodeVars: []string{"v"}, PITargets: []string{"t"}}}
		e := genC08(g, 2)
		toks := xast.Tokens(e)
		text, kind := mutate(t, toks)
		c := &c08NegCase{Text: text, Mutation: kind, From: xast.JoinTokens(toks)}
		st.Eval(1)
		st.Class("mutation: " + kind)
		st.NonTrivial(text)
		st.Sample(text, map[string]any{"text": text, "mutation": kind, "of": c.From})
		c08Neg.run(t, c)
	})
}
