package props

import (
	"bytes"
	"encoding/json"
	"fmt"
	"os"
	"os/exec"
	"path/filepath"
	"reflect"
	"strings"
	"sync"
	"sync/atomic"
	"testing"

	"github.com/ChrisTrenkamp/xsel"
	"github.com/ChrisTrenkamp/xsel/store"
	"pgregory.net/rapid"

	"verif/xast"
	"verif/xmodel"
)

// C14 - shared documents and compiled queries are safe under concurrent use.
//
// The test binary and the CLI are built with -race.  GORACE is set by the
// driver to halt_on_error=1 exitcode=66: the first detected race ends the
// process, and the driver turns the "current case" file into the replay.

type c14Case struct {
	Events  []xmodel.Event `json:"events"`
	Exprs   []string       `json:"exprs"`
	VarRefs []string       `json:"var_refs"` // nodes of the shared node-set bound as $v, in the caller's order
	Threads int            `json:"threads"`
	Ops     [][][2]int     `json:"ops"` // per goroutine: (expression index, node index into doc.All)
	Rounds  int            `json:"rounds"`
	Cold    bool           `json:"cold,omitempty"` // the goroutines share freshly built expressions that were never executed serially
}

var c14Lib = reg("C14", "c14-concurrent", checkC14)
var c14CLI = reg("C14", "c14-cli", checkC14CLI)

func currentCaseFile(kind string) string {
	return filepath.Join(envOut, fmt.Sprintf("current-%d-%s.json", envShard, kind))
}

func noteCurrent(prop, kind string, c any) {
	raw, _ := json.Marshal(c)
	b, _ := json.Marshal(replayFile{prop, kind, "data race reported by the Go race detector while this case was running (see the shard log for the stacks)", raw})
	os.WriteFile(currentCaseFile(kind), b, 0o644)
}

func checkC14(c *c14Case) error {
	p, err := prepareDoc(c.Events)
	if err != nil {
		st.Discard("document-not-mirrored")
		return nil
	}
	exprs := make([]*xsel.Grammar, len(c.Exprs))
	for i, text := range c.Exprs {
		g, err := safeBuild(text)
		if err != nil {
			return fmt.Errorf("BuildExpr(%q): %v", text, firstLine(err.Error()))
		}
		exprs[i] = &g
	}
	shared := xsel.NodeSet{}
	for _, r := range c.VarRefs {
		if m := p.doc.Resolve(r); m != nil {
			shared = append(shared, p.loc.ToCur[m])
		}
	}
	// one set of bindings shared by every goroutine
	nsMap := map[string]string{"x": "urn:x", "y": "urn:y"}
	vars := map[xsel.XmlName]xsel.Result{{Local: "v"}: shared, {Local: "n"}: xsel.Number(2), {Local: "s"}: xsel.String("a")}
	apply := func(cs *xsel.ContextSettings) {
		cs.NamespaceDecls = nsMap
		cs.Variables = vars
	}
	node := func(i int) *xmodel.Node { return p.doc.All[i%len(p.doc.All)] }
	// results are compared by position, so that the serial ones may come from another copy of the tree
	snap := func(r xsel.Result) string {
		if ns, ok := r.(xsel.NodeSet); ok {
			var sb strings.Builder
			sb.WriteString("nodes:")
			for _, c := range ns {
				fmt.Fprintf(&sb, "%d,", c.Pos())
			}
			return sb.String()
		}
		return snapshotResult(r)
	}
	// serial results first
	serial := map[[2]int]string{}
	for _, ops := range c.Ops {
		for _, op := range ops {
			if _, ok := serial[op]; ok {
				continue
			}
			r, err := safeExec(p.loc.ToCur[node(op[1])], exprs[op[0]%len(exprs)], apply)
			if err != nil {
				serial[op] = "error"
			} else {
				serial[op] = snap(r)
			}
		}
	}
	if c.Cold {
		// lazily initialised state in the tree races on its first use as well: the goroutines get a copy of the
		// document that no query has touched yet (the shared node-set variable stays bound to the first copy's
		// nodes only when it is empty - otherwise the first copy is kept)
		if len(shared) == 0 {
			if p2, err := prepareDoc(c.Events); err == nil {
				p = p2
			}
		}
		// lazily initialised state in a compiled expression races on its first
		// use: hand the goroutines expressions nobody has executed yet
		for i, text := range c.Exprs {
			g, err := safeBuild(text)
			if err != nil {
				return fmt.Errorf("BuildExpr(%q) failed the second time: %v", text, err)
			}
			exprs[i] = &g
		}
	}
	noteCurrent("C14", "c14-concurrent", c)
	rounds := c.Rounds
	if rounds < 1 {
		rounds = 1
	}
	for round := 0; round < rounds; round++ {
		var wg sync.WaitGroup
		start := make(chan struct{})
		errs := make(chan error, len(c.Ops))
		for gi, ops := range c.Ops {
			wg.Add(1)
			go func(gi int, ops [][2]int) {
				defer wg.Done()
				<-start
				for _, op := range ops {
					r, err := safeExec(p.loc.ToCur[node(op[1])], exprs[op[0]%len(exprs)], apply)
					got := "error"
					if err == nil {
						got = snap(r)
					}
					if got != serial[op] {
						errs <- fmt.Errorf("goroutine %d: Exec(%q) from %s gave a different result concurrently than serially", gi, c.Exprs[op[0]%len(exprs)], node(op[1]).Ref())
						return
					}
				}
			}(gi, ops)
		}
		close(start)
		wg.Wait()
		st.Eval(len(c.Ops))
		select {
		case err := <-errs:
			return err
		default:
		}
	}
	os.Remove(currentCaseFile("c14-concurrent"))
	return nil
}

// ---- concurrent Unmarshal into a type nobody has unmarshaled into yet ----

type c14UCase struct {
	Events  []xmodel.Event `json:"events"`
	Tags    []string       `json:"tags"`  // one string field per tag
	Nodes   []int          `json:"nodes"` // element indices (mod the number of elements) every goroutine unmarshals from
	Threads int            `json:"threads"`
	Slice   bool           `json:"slice,omitempty"` // unmarshal the whole element list into a slice of the struct
}

var c14U = reg("C14", "c14-unmarshal", checkC14U)

// a process-wide counter that makes every case's struct type a new one (the
// tags carry it as trailing white space, which changes nothing in the
// expressions): whatever the library keeps per type is cold when the
// goroutines start
var c14TypeSerial uint32

func checkC14U(c *c14UCase) error {
	p, err := prepareDoc(c.Events)
	if err != nil {
		st.Discard("document-not-mirrored")
		return nil
	}
	var elems xsel.NodeSet
	for _, n := range p.doc.All {
		if n.Kind == xmodel.Elem {
			elems = append(elems, p.loc.ToCur[n])
		}
	}
	if len(elems) == 0 || len(c.Tags) == 0 {
		return nil
	}
	serial := atomic.AddUint32(&c14TypeSerial, 1)
	pad := ""
	for b := 0; b < 20; b++ {
		if serial&(1<<uint(b)) != 0 {
			pad += "\t"
		} else {
			pad += " "
		}
	}
	var fields []reflect.StructField
	for i, tag := range c.Tags {
		if _, err := safeBuild(tag); err != nil {
			return fmt.Errorf("harness: tag %q: %v", tag, err)
		}
		fields = append(fields, reflect.StructField{Name: fmt.Sprintf("F%d", i), Type: reflect.TypeOf(""), Tag: reflect.StructTag(fmt.Sprintf("xsel:%q", tag+pad))})
	}
	typ := reflect.StructOf(fields)
	one := func(k int) string {
		defer func() { recover() }()
		if c.Slice {
			target := reflect.New(reflect.SliceOf(typ))
			if err := xsel.Unmarshal(elems, target.Interface()); err != nil {
				return "error"
			}
			return fmt.Sprintf("%q", target.Elem().Interface())
		}
		target := reflect.New(typ)
		if err := xsel.Unmarshal(xsel.NodeSet{elems[k%len(elems)]}, target.Interface()); err != nil {
			return "error"
		}
		return fmt.Sprintf("%q", target.Elem().Interface())
	}
	noteCurrent("C14", "c14-unmarshal", c)
	results := make([][]string, c.Threads)
	var wg sync.WaitGroup
	start := make(chan struct{})
	for gi := 0; gi < c.Threads; gi++ {
		wg.Add(1)
		go func(gi int) {
			defer wg.Done()
			<-start
			for _, k := range c.Nodes {
				results[gi] = append(results[gi], one(k))
			}
		}(gi)
	}
	close(start)
	wg.Wait()
	st.Eval(c.Threads * len(c.Nodes))
	// the serial executions, afterwards
	for i, k := range c.Nodes {
		want := one(k)
		for gi := range results {
			if i >= len(results[gi]) || results[gi][i] != want {
				got := "<nothing: the call panicked>"
				if i < len(results[gi]) {
					got = results[gi][i]
				}
				return fmt.Errorf("goroutine %d: Unmarshal of element %d into struct{%s} gave %s concurrently, %s serially", gi, k%len(elems), strings.Join(c.Tags, "; "), got, want)
			}
		}
	}
	os.Remove(currentCaseFile("c14-unmarshal"))
	return nil
}

// ---- concurrent parsing ----

type c14PDoc struct {
	Kind string `json:"kind"` // xml html json
	Data []byte `json:"data"`
}

type c14PCase struct {
	Docs    []c14PDoc `json:"docs"`
	Threads int       `json:"threads"`
}

var c14P = reg("C14", "c14-parsers", checkC14P)

// treeText renders a cursor tree by positions, kinds, names and values (no pointers).
func treeText(root store.Cursor) string {
	var sb strings.Builder
	var walk func(c store.Cursor)
	walk = func(c store.Cursor) {
		fmt.Fprintf(&sb, "%d|%s;", c.Pos(), xmodel.DescribeCursor(c))
		for _, x := range c.Namespaces() {
			walk(x)
		}
		for _, x := range c.Attributes() {
			walk(x)
		}
		for _, x := range c.Children() {
			walk(x)
		}
	}
	walk(root)
	return sb.String()
}

func parseText(d c14PDoc) (out string) {
	defer func() {
		if r := recover(); r != nil {
			out = fmt.Sprintf("panic: %v", r)
		}
	}()
	var cur store.Cursor
	var err error
	switch d.Kind {
	case "xml":
		cur, err = xsel.ReadXml(bytes.NewReader(d.Data))
	case "html":
		cur, err = xsel.ReadHtml(bytes.NewReader(d.Data))
	default:
		cur, err = xsel.ReadJson(bytes.NewReader(d.Data))
	}
	if err != nil || cur == nil {
		return "error"
	}
	return treeText(cur)
}

// checkC14P: documents parsed by several goroutines at once give the trees
// they give when parsed one after another (and the race detector stays silent).
func checkC14P(c *c14PCase) error {
	noteCurrent("C14", "c14-parsers", c)
	results := make([][]string, c.Threads)
	var wg sync.WaitGroup
	start := make(chan struct{})
	for gi := 0; gi < c.Threads; gi++ {
		wg.Add(1)
		go func(gi int) {
			defer wg.Done()
			<-start
			for k := range c.Docs {
				results[gi] = append(results[gi], parseText(c.Docs[(k+gi)%len(c.Docs)]))
			}
		}(gi)
	}
	close(start)
	wg.Wait()
	st.Eval(c.Threads * len(c.Docs))
	for k, d := range c.Docs {
		want := parseText(d)
		for gi := range results {
			// goroutine gi parsed document k at step (k-gi) mod len
			step := ((k-gi)%len(c.Docs) + len(c.Docs)) % len(c.Docs)
			if results[gi][step] != want {
				return fmt.Errorf("goroutine %d: the %s document %d parsed concurrently gives another tree than parsed alone:\n concurrent %s\n alone      %s", gi, d.Kind, k, clip(results[gi][step]), clip(want))
			}
		}
	}
	os.Remove(currentCaseFile("c14-parsers"))
	return nil
}

// ---- CLI ----

type c14CLICase struct {
	Files []cliFile `json:"files"`
	Expr  string    `json:"expr"`
	A     bool      `json:"a,omitempty"`
	M     bool      `json:"m,omitempty"`
	N     int       `json:"n"` // -c N
	Extra []string  `json:"extra,omitempty"` // further flags: -u, -e name=value, -s prefix=uri, -v name=value, -t xml
}

func runCLI(bin, dir string, args []string) (string, string, int) {
	cmd := exec.Command(bin, args...)
	cmd.Dir = dir
	cmd.Env = append(os.Environ(), "GORACE=halt_on_error=1 exitcode=66")
	var so, se bytes.Buffer
	cmd.Stdout, cmd.Stderr = &so, &se
	err := cmd.Run()
	code := 0
	if ee, ok := err.(*exec.ExitError); ok {
		code = ee.ExitCode()
	} else if err != nil {
		code = -1
	}
	return so.String(), se.String(), code
}

func checkC14CLI(c *c14CLICase) error {
	bin, err := cliBinary(true)
	if err != nil {
		return fmt.Errorf("harness: %v", err)
	}
	dir, err := os.MkdirTemp(envOut, "c14-")
	if err != nil {
		return fmt.Errorf("harness: %v", err)
	}
	defer os.RemoveAll(dir)
	cc := &c20Case{Files: c.Files}
	if err := cc.materialise(dir); err != nil {
		return fmt.Errorf("harness: %v", err)
	}
	args := []string{"-x", c.Expr, "-r"}
	if c.A {
		args = append(args, "-a")
	}
	if c.M {
		args = append(args, "-m")
	}
	args = append(args, c.Extra...)
	noteCurrent("C14", "c14-cli", c)
	out1, _, code1 := runCLI(bin, dir, append(append([]string{}, args...), "-c", "1", "."))
	outN, errN, codeN := runCLI(bin, dir, append(append([]string{}, args...), "-c", fmt.Sprint(c.N), "."))
	st.Eval(1)
	if code1 == 66 || codeN == 66 {
		return fmt.Errorf("the race detector reported a data race in the CLI with -c %d: %s", c.N, firstLine(errN))
	}
	if codeN != code1 {
		return fmt.Errorf("xsel -c %d exited with %d, -c 1 with %d: %s", c.N, codeN, code1, firstLine(errN))
	}
	// the per-file blocks: what the tool prints for each file alone
	var blocks []string
	outs := make([]string, len(c.Files))
	var wg sync.WaitGroup
	sem := make(chan struct{}, 8)
	for i, f := range c.Files {
		wg.Add(1)
		go func(i int, path string) {
			defer wg.Done()
			sem <- struct{}{}
			outs[i], _, _ = runCLI(bin, dir, append(append([]string{}, args...), "-c", "1", path))
			<-sem
		}(i, f.Path)
	}
	wg.Wait()
	for _, o := range outs {
		if o != "" {
			blocks = append(blocks, o)
		}
	}
	for _, run := range []struct {
		n   int
		out string
	}{{1, out1}, {c.N, outN}} {
		rest := run.out
		used := make([]bool, len(blocks))
		for rest != "" {
			found := false
			for i, b := range blocks {
				if !used[i] && strings.HasPrefix(rest, b) {
					used[i], found, rest = true, true, rest[len(b):]
					break
				}
			}
			if !found {
				return fmt.Errorf("xsel -c %d: the output is not a sequence of intact per-file blocks; at %q (whole output %q)", run.n, clip(rest), clip(run.out))
			}
		}
		for i, u := range used {
			if !u {
				return fmt.Errorf("xsel -c %d: the output block %q is missing", run.n, clip(blocks[i]))
			}
		}
	}
	os.Remove(currentCaseFile("c14-cli"))
	return nil
}

func clip(s string) string {
	if len(s) > 600 {
		return s[:600] + "..."
	}
	return s
}

func TestC14(t *testing.T) {
	runWitnesses(t, "C14")
	runProp(t, "library", 300, 20000, func(t *rapid.T) {
		ev := xmodel.Gen(t, xmodel.GenCfg{MaxDepth: 3, MaxKids: 4, Names: []string{"a", "b", "c"}, Numeric: true, Wide: true})
		// one case in five: an attribute-heavy element (9-24 attributes, xml:lang somewhere among them) in a tree
		// nobody has queried yet, and attribute look-ups by name from several goroutines at once (whatever an
		// element builds lazily for its attributes is built on first use)
		heavy := rapid.IntRange(0, 4).Draw(t, "attributeHeavy") == 0
		if heavy {
			var starts []int
			for i, e := range ev {
				if e.K == "S" {
					starts = append(starts, i)
				}
			}
			if len(starts) > 0 {
				at := starts[rapid.IntRange(0, len(starts)-1).Draw(t, "heavyElement")] + 1
				hasLang := false
				for at < len(ev) && (ev[at].K == "N" || ev[at].K == "A") {
					if ev[at].K == "A" && ev[at].Space == xmodel.XMLNS && ev[at].Local == "lang" {
						hasLang = true
					}
					at++
				}
				n := rapid.IntRange(9, 24).Draw(t, "heavyAttrs")
				langAt := rapid.IntRange(0, n-1).Draw(t, "heavyLangAt")
				var extra []xmodel.Event
				for i := 0; i < n; i++ {
					if i == langAt && !hasLang {
						extra = append(extra, xmodel.Event{K: "A", Space: xmodel.XMLNS, Local: "lang", Prefix: "xml", Value: []string{"en", "de", "en-US"}[rapid.IntRange(0, 2).Draw(t, "heavyLang")]})
						continue
					}
					extra = append(extra, xmodel.Event{K: "A", Local: fmt.Sprintf("h%c%c", 'z'-rune(i%7), 'a'+rune(i)), Value: fmt.Sprint(i % 3)})
				}
				ev = append(append(append([]xmodel.Event{}, ev[:at]...), extra...), ev[at:]...)
				st.Class("attribute-heavy element in the tree")
			}
		}
		doc := xmodel.Build(ev)
		elems, attrs, _ := docNames(doc)
		g := &xast.G{T: t, Env: xast.GenEnv{ElemNames: queryable(elems), AttrNames: queryable(attrs), Prefixes: []string{"x", "y"}, NumVars: []string{"n"}, StrVars: []string{"s"}, NodeVars: []string{"v"}, NoLang: true}}
		c := &c14Case{Events: ev, Threads: rapid.IntRange(2, 16).Draw(t, "threads"), Rounds: rapid.IntRange(1, 4).Draw(t, "rounds"), Cold: rapid.Bool().Draw(t, "cold")}
		if heavy {
			c.Cold = c.Cold || rapid.IntRange(0, 3).Draw(t, "heavyCold") != 0
			c.Exprs = append(c.Exprs, []string{"count(//*[lang('en')])", "count(//node()[lang('de')])", "//*[@hza][lang('en')]", "count(//*[@hya = 1]/@*)", "lang('en')", "string(//@hxc)"}[rapid.IntRange(0, 5).Draw(t, "heavyExpr")])
		}
		fixed := []string{"$v | //a", "//a | $v", "$v | $v", "$v | /nope", "($v | //b)[1]", "$v/..", "$v[last()]", "count($v | //b)", "//*/ancestor::*", "//@*/..", "$v//text()", "//a[position() = last()]", "sum(//a) + count($v)",
			// every builtin at least twice with different arguments (shared scratch state in one builtin races only there)
			"translate(string(//a), 'ab1', 'xyz')", "translate(string(//b), '12a', 'ba')", "translate('abcabc', 'abc', 'xyz')", "translate('abcabc', 'cba', '12')",
			"substring(string(/), 2, 3)", "substring('abcdef', 3)", "substring-before('a-b-c', '-')", "substring-after(string(//a), '1')", "normalize-space(' a  b ')", "normalize-space(string(/))",
			"concat('a', 'b', string(//a))", "concat(name(/*), '-', local-name(//b))", "string-length(string(/))", "string-length('é€')", "contains(string(/), '1')", "starts-with('abc', 'ab')",
			"round(1.5) + floor(2.7) + ceiling(0.2)", "sum(//b) div count(//*)", "number(' 12 ') mod 5", "boolean(//a) and not(//nosuch)", "lang('en')", "count(//*[lang('en')])", "count(//node()[lang('de')])", "//*[@id][lang('en')]", "namespace-uri(/*)", "name(//@*)",
			"string(//a[last()])", "count(//*[position() mod 2 = 1])", "local-name(//namespace::node()[1])", "string(1 div 3)", "string(123456789012)",
			// deep and long expressions (whatever is counted per evaluation must be counted per evaluation)
			strings.Repeat("(", 160) + "count(//a)" + strings.Repeat(")", 160), "1" + strings.Repeat(" + 1", 400), "//a" + strings.Repeat("[.]", 120), strings.Repeat("-", 300) + "1",
			"count(" + strings.Repeat("(", 100) + "//a | //b" + strings.Repeat(")", 100) + ")"}
		for i, n := 0, rapid.IntRange(2, 6).Draw(t, "nExprs"); i < n; i++ {
			if rapid.IntRange(0, 2).Draw(t, "fixedExpr") != 0 {
				c.Exprs = append(c.Exprs, fixed[rapid.IntRange(0, len(fixed)-1).Draw(t, "fixed")])
			} else {
				c.Exprs = append(c.Exprs, xast.RenderMinimal(g.Any(2)))
			}
		}
		// the shared node-set variable, in reverse document order with luck
		for i, n := 0, rapid.IntRange(0, 6).Draw(t, "varSize"); i < n; i++ {
			c.VarRefs = append(c.VarRefs, doc.All[rapid.IntRange(0, len(doc.All)-1).Draw(t, "varNode")].Ref())
		}
		nOps := rapid.IntRange(5, 50).Draw(t, "opsPerThread")
		sameProgram := rapid.Bool().Draw(t, "sameProgram")
		var prog [][2]int
		for j := 0; j < nOps; j++ {
			prog = append(prog, [2]int{rapid.IntRange(0, len(c.Exprs)-1).Draw(t, "e"), rapid.IntRange(0, len(doc.All)-1).Draw(t, "n")})
		}
		for i := 0; i < c.Threads; i++ {
			if sameProgram {
				c.Ops = append(c.Ops, prog)
				continue
			}
			var ops [][2]int
			for j := 0; j < nOps; j++ {
				ops = append(ops, [2]int{rapid.IntRange(0, len(c.Exprs)-1).Draw(t, "e"), rapid.IntRange(0, len(doc.All)-1).Draw(t, "n")})
			}
			c.Ops = append(c.Ops, ops)
		}
		st.Class(fmt.Sprintf("threads=%d", c.Threads/4*4))
		usesShared := false
		for _, e := range c.Exprs {
			if strings.Contains(e, "$v") {
				usesShared = true
			}
		}
		if usesShared && len(c.VarRefs) >= 2 {
			key := fmt.Sprint(c.Exprs, c.VarRefs, c.Threads, len(ev))
			st.NonTrivial(key)
			st.Class("shared-node-set-variable")
			if len(ev) <= 20 {
				st.Sample(key, map[string]any{"exprs": c.Exprs, "shared $v": c.VarRefs, "goroutines": c.Threads, "ops per goroutine": nOps})
			}
		}
		c14Lib.run(t, c)
	})
	runProp(t, "unmarshal", 300, 20000, func(t *rapid.T) {
		ev := xmodel.Gen(t, xmodel.GenCfg{MaxDepth: 3, MaxKids: 4, Names: []string{"a", "b", "c"}, Numeric: true})
		c := &c14UCase{Events: ev, Threads: rapid.IntRange(2, 16).Draw(t, "threads"), Slice: rapid.IntRange(0, 3).Draw(t, "slice") == 0}
		tags := []string{"name()", "string(.)", "count(*)", "count(@*)", "local-name(..)", "*[1]", "@*[1]", "count(ancestor::*)", "count(following::*)", "text()", "string-length(.)", "sum(*)",
			"concat(name(), '-', count(*))", "translate(., '12', 'ab')", "normalize-space(.)", "position()", "last()", "count(//*)", "substring(., 1, 2)", "boolean(*)", "a", "b", "c", "a | b", "//a[1]"}
		for i, n := 0, rapid.IntRange(1, 9).Draw(t, "nFields"); i < n; i++ {
			c.Tags = append(c.Tags, tags[rapid.IntRange(0, len(tags)-1).Draw(t, "tag")])
		}
		for i, n := 0, rapid.IntRange(1, 6).Draw(t, "nNodes"); i < n; i++ {
			c.Nodes = append(c.Nodes, rapid.IntRange(0, 40).Draw(t, "node"))
		}
		st.Class(fmt.Sprintf("unmarshal threads=%d", c.Threads/4*4))
		if len(c.Tags) >= 2 {
			key := fmt.Sprint("unmarshal", c.Tags, c.Nodes, c.Threads, c.Slice, len(ev))
			st.NonTrivial(key)
			st.Class("concurrent-unmarshal-into-a-fresh-type")
			if len(ev) <= 20 {
				st.Sample(key, map[string]any{"tags": c.Tags, "goroutines": c.Threads, "elements": c.Nodes, "into a slice": c.Slice})
			}
		}
		c14U.run(t, c)
	})
	runProp(t, "parsers", 120, 8000, func(t *rapid.T) {
		c := &c14PCase{Threads: rapid.IntRange(2, 12).Draw(t, "threads")}
		for i, n := 0, rapid.IntRange(2, 8).Draw(t, "nDocs"); i < n; i++ {
			kind := []string{"xml", "xml", "html", "json"}[rapid.IntRange(0, 3).Draw(t, "kind")]
			c.Docs = append(c.Docs, c14PDoc{Kind: kind, Data: genCLIFileData(t, kind, rapid.IntRange(0, 7).Draw(t, "bad") == 0)})
		}
		st.Class(fmt.Sprintf("parsers threads=%d", c.Threads/4*4))
		st.NonTrivial(fmt.Sprint("parsers", c.Threads, len(c.Docs), len(c.Docs[0].Data), len(c.Docs[1].Data)))
		c14P.run(t, c)
	})
	runProp(t, "cli", 12, 400, func(t *rapid.T) {
		c := &c14CLICase{N: []int{2, 4, 16}[rapid.IntRange(0, 2).Draw(t, "n")], A: rapid.Bool().Draw(t, "a"), M: rapid.IntRange(0, 2).Draw(t, "m") == 0}
		nFiles := rapid.IntRange(10, 60).Draw(t, "nFiles")
		few := rapid.IntRange(0, 2).Draw(t, "fewFiles") == 0
		if few {
			// fewer files than workers: every worker must still be waited for
			nFiles = rapid.IntRange(1, 3).Draw(t, "nFew")
		}
		for i := 0; i < nFiles; i++ {
			kind := []string{"xml", "xml", "xml", "json", "html"}[rapid.IntRange(0, 4).Draw(t, "kind")]
			ext := map[string]string{"xml": ".xml", "json": ".json", "html": ".html"}[kind]
			c.Files = append(c.Files, cliFile{Kind: "file", Path: fmt.Sprintf("%sf%03d%s", []string{"", "d/", "d/e/"}[rapid.IntRange(0, 2).Draw(t, "dir")], i, ext),
				Data: genCLIFileData(t, kind, rapid.IntRange(0, 9).Draw(t, "bad") == 0)})
		}
		// a few files whose output block is far longer than any I/O buffer
		nBig := rapid.IntRange(2, 5).Draw(t, "bigFiles")
		if few {
			nBig = 0
		}
		for i, n := 0, nBig; i < n; i++ {
			var sb strings.Builder
			sb.WriteString("<big>")
			for k, m := 0, rapid.IntRange(300, 900).Draw(t, "bigNodes"); k < m; k++ {
				fmt.Fprintf(&sb, "<a n=\"%d\">value %d of file %d</a>", k, k, i)
			}
			sb.WriteString("</big>")
			c.Files = append(c.Files, cliFile{Kind: "file", Path: fmt.Sprintf("big/b%02d.xml", i), Data: []byte(sb.String())})
		}
		c.Expr = []string{"//*", "//text()", "//a", "//node()", "//*[text()]", "count(//*)", "//namespace::*", "//@*", "//*[lang('en')]", "//x:*", "//*[. = $val]"}[rapid.IntRange(0, 10).Draw(t, "expr")]
		// every worker shares the flags' maps as well
		if rapid.Bool().Draw(t, "u") {
			c.Extra = append(c.Extra, "-u")
		}
		if rapid.Bool().Draw(t, "e") {
			c.Extra = append(c.Extra, "-e", "company=ACME", "-e", "co=x")
		}
		c.Extra = append(c.Extra, "-s", "x=urn:x", "-v", "val=1")
		if rapid.IntRange(0, 3).Draw(t, "forceXml") == 0 {
			c.Extra = append(c.Extra, "-t", "xml")
		}
		st.Class(fmt.Sprintf("cli -c %d", c.N))
		if few {
			st.Class("cli fewer files than workers")
		}
		if nFiles >= 8 && (c.A || c.M) || few {
			st.NonTrivial(fmt.Sprint("cli", c.N, c.A, c.M, nFiles, c.Expr, len(c.Files[0].Data)))
			st.Sample(fmt.Sprint("cli", c.N, c.A, c.M, nFiles, c.Expr), map[string]any{"files": nFiles, "expr": c.Expr, "-a": c.A, "-m": c.M, "-c": c.N})
		}
		c14CLI.run(t, c)
	})
}
