package props

import (
	"fmt"
	"testing"

	"github.com/ChrisTrenkamp/xsel"
	"github.com/ChrisTrenkamp/xsel/store"
	"pgregory.net/rapid"

	"verif/xast"
	"verif/xmodel"
)

// C02 - predicates: per-context-node proximity position, true context size,
// filter expressions and paths continued after them.

var c02Diff = reg("C02", "c02-diff", checkEvalCase)
var c02Meta = reg("C02", "c02-meta", checkC02Meta)

func c02DocCfg() xmodel.GenCfg {
	return xmodel.GenCfg{MaxDepth: 4, MaxKids: 4, MaxTop: 1, Forest: true, Names: []string{"a", "b", "a", "b", "c", "a", "b", "nan", "inf", "Infinity"}, Numeric: true, Wide: true, Undeclare: true, AllowBig: thorough(), Stress: true}
}

// genPredPath draws a path whose steps carry predicates, over forward and
// reverse axes, after steps that select several context nodes.
func genPredPath(g *xast.G) *xast.Expr {
	t := g.T
	p := &xast.Expr{K: "path", Abs: true}
	n := rapid.IntRange(1, 3).Draw(t, "predPathSteps")
	for i := 0; i < n; i++ {
		var s *xast.Step
		if i == 0 {
			s = &xast.Step{DS: true, Axis: "child", Test: g.Test("child")}
		} else {
			ax := g.Axis()
			s = &xast.Step{Axis: ax, Test: g.Test(ax), DS: rapid.IntRange(0, 5).Draw(t, "ds") == 0}
		}
		np := rapid.IntRange(0, 3).Draw(t, "nPreds")
		if i == n-1 && np == 0 {
			np = 1
		}
		for j := 0; j < np; j++ {
			s.Preds = append(s.Preds, g.Pred(2))
		}
		p.Steps = append(p.Steps, s)
	}
	return p
}

// genFilterExpr draws (E)[p], (E)[p][q], $v[p], u:nodes()[p] and the
// continued forms (E)[p]/step, (E)//step, $v/step, u:nodes()//step.
func genFilterExpr(g *xast.G) *xast.Expr {
	t := g.T
	var base *xast.Expr
	switch rapid.IntRange(0, 3).Draw(t, "filterBase") {
	case 0:
		base = xast.Var("v")
	case 1:
		base = xast.Call("u:nodes")
	default:
		e := g.RelPath(1, 2)
		e.Abs = true
		e.Steps[0].DS = true
		if rapid.Bool().Draw(t, "endReverse") {
			ax := []string{"ancestor", "preceding", "preceding-sibling", "ancestor-or-self"}[rapid.IntRange(0, 3).Draw(t, "revAxis")]
			e.Steps = append(e.Steps, &xast.Step{Axis: ax, Test: g.Test(ax)})
		}
		base = e
	}
	f := xast.Filter(base, nil)
	np := rapid.IntRange(0, 2).Draw(t, "filterPreds")
	for i := 0; i < np; i++ {
		f.BP = append(f.BP, g.Pred(1))
	}
	if rapid.Bool().Draw(t, "continue") || np == 0 {
		steps := g.RelPath(1, 2).Steps
		steps[0].DS = rapid.Bool().Draw(t, "continueDS")
		f.Steps = steps
	}
	return f
}

func TestC02(t *testing.T) {
	runWitnesses(t, "C02")
	runProp(t, "diff", 45000, 1000000, func(t *rapid.T) {
		kind := rapid.IntRange(0, 2).Draw(t, "c02Kind")
		c, p := genDocCase(t, caseOpts{cfg: c02DocCfg(), vars: true, nodeVars: true}, func(g *xast.G, p *prepared) *xast.Expr {
			if kind == 2 {
				return genFilterExpr(g)
			}
			return genPredPath(g)
		}, drawStyle(t))
		if c == nil {
			return
		}
		// u:nodes() returns a drawn node-set
		c.NS["u"] = "urn:fn"
		var refs []string
		for i, n := 0, rapid.IntRange(0, 4).Draw(t, "fnNodes"); i < n; i++ {
			refs = append(refs, p.doc.All[rapid.IntRange(0, len(p.doc.All)-1).Draw(t, "fnNode")].Ref())
		}
		c.Funcs = []funcBinding{{Space: "urn:fn", Local: "nodes", Nodes: refs}}
		out, why, err := evalPrepared(c, p)
		if out == discarded {
			st.Discard(why)
			return
		}
		st.Eval(1)
		o := lastObs
		st.Class(fmt.Sprintf("kind=%d", kind))
		nt := false
		if o.PredCandidates >= 2 && o.PredCtxNodes >= 2 {
			st.Class("pred-after-multi-node-step")
			nt = true
		}
		if o.ReversePred {
			st.Class("pred-on-reverse-axis")
			nt = true
		}
		if o.NonIntegralPred {
			st.Class("non-integral-numeric-pred")
			nt = true
		}
		if o.FilterPred {
			st.Class("filter-expression-pred")
		}
		if o.FilterContinued {
			st.Class("path-after-filter-expression")
			nt = true
		}
		if nt {
			key := c.Text + "|" + fmt.Sprint(c.Events)
			st.NonTrivial(key)
			if len(c.Events) <= 30 {
				st.Sample(key, map[string]any{"events": eventStrings(c.Events), "expr": c.Text, "expected": lastRef.Describe()})
			}
		}
		if err != nil {
			recordFailure("C02", "c02-diff", c, err.Error())
			t.Fatalf("C02/diff: %v", err)
		}
	})
	// guided walks with predicates: every step selects something, so the
	// predicates number candidates of several context nodes, of reverse axes
	// and of steps taken from mixed-kind node-sets
	runProp(t, "walks", 12000, 300000, func(t *rapid.T) {
		ev := xmodel.Gen(t, c02DocCfg())
		p, err := prepareDoc(ev)
		if err != nil {
			st.Discard("document-not-mirrored")
			return
		}
		ns := genBindings(t)
		elems, attrs, targets := docNames(p.doc)
		ctx := p.doc.Root
		if rapid.Bool().Draw(t, "innerCtx") {
			ctx = p.doc.All[rapid.IntRange(0, len(p.doc.All)-1).Draw(t, "ctx")]
		}
		c := &evalCase{Events: ev, Ctx: ctx.Ref(), NS: ns, Vars: []varBinding{mixedNodeVar(t, p.doc, "w"), {Local: "n0", T: "num", Num: "2"}}}
		_, env, err := c.settings(p)
		if err != nil {
			t.Fatalf("harness: %v", err)
		}
		g := &xast.G{T: t, Env: xast.GenEnv{ElemNames: queryable(elems), AttrNames: queryable(attrs), PITargets: targets, Prefixes: prefixesOf(ns), NoLang: true,
			NodeVars: []string{"w"}, NumVars: []string{"n0"}, NoAbs: ctx != p.doc.Root}}
		c.Expr = genWalk(t, g, env, ctx, ctx == p.doc.Root, 4, 2)
		if rapid.IntRange(0, 3).Draw(t, "wholePred") == 0 {
			// (walk)[pred]: the filter numbers the whole node-set in document order
			c.Expr = xast.Filter(c.Expr, []*xast.Expr{g.Pred(1)})
		}
		c.Text = xast.Render(c.Expr, xast.RapidChooser{T: t}, drawStyle(t))
		out, why, err := evalPrepared(c, p)
		if out == discarded {
			st.Discard(why)
			return
		}
		st.Eval(1)
		o := lastObs
		if o.PredCandidates >= 2 && o.PredCtxNodes >= 2 || o.ReversePred || o.NonIntegralPred || o.FilterContinued {
			st.Class("walk-with-positional-predicate")
			key := c.Text + "|" + c.Ctx + fmt.Sprint(ev)
			st.NonTrivial(key)
			if len(ev) <= 24 {
				st.Sample(key, map[string]any{"events": eventStrings(ev), "context": c.Ctx, "expr": c.Text, "w": c.Vars[0].Nodes, "expected": lastRef.Describe()})
			}
		}
		if err != nil {
			recordFailure("C02", "c02-diff", c, err.Error())
			t.Fatalf("C02/walks: %v", err)
		}
	})
	runProp(t, "meta", 7500, 100000, func(t *rapid.T) {
		ev := xmodel.Gen(t, c02DocCfg())
		g := &xast.G{T: t, Env: xast.GenEnv{ElemNames: []string{"a", "b", "c"}, AttrNames: []string{"id", "k"}, NoNSAxis: true}}
		ax := g.Axis()
		step := &xast.Step{Axis: ax, Test: g.Test(ax)}
		prefix := &xast.Expr{K: "path", Abs: true, Steps: []*xast.Step{xast.DS("child", g.Test("child")), step}}
		c := &c02MetaCase{Events: ev, P: xast.RenderMinimal(prefix), N: rapid.IntRange(0, 4).Draw(t, "n"),
			Child: "//" + []string{"a", "b", "c", "*", "node()", "text()"}[rapid.IntRange(0, 5).Draw(t, "childTest")]}
		c02Meta.run(t, c)
	})
}

type c02MetaCase struct {
	Events []xmodel.Event `json:"events"`
	P      string         `json:"p"`     // a path ending in a step without predicates
	N      int            `json:"n"`     // the index tried
	Child  string         `json:"child"` // a '//'-prefixed child step for the per-parent law
}

func execNodes(p *prepared, text string) (xsel.NodeSet, error) {
	g, err := buildExpr(text)
	if err != nil {
		return nil, fmt.Errorf("BuildExpr(%q): %v", text, firstLine(err.Error()))
	}
	r, err := safeExec(p.root, g)
	if err != nil {
		return nil, fmt.Errorf("Exec(%q): %v", text, err)
	}
	ns, ok := r.(xsel.NodeSet)
	if !ok {
		return nil, fmt.Errorf("Exec(%q): not a node-set", text)
	}
	return ns, nil
}

func sameNodeList(a, b xsel.NodeSet) bool {
	if len(a) != len(b) {
		return false
	}
	for i := range a {
		if a[i] != b[i] {
			return false
		}
	}
	return true
}

// checkC02Meta: metamorphic identities on the implementation alone.
func checkC02Meta(c *c02MetaCase) error {
	p, err := prepareDoc(c.Events)
	if err != nil {
		st.Discard("document-not-mirrored")
		return nil
	}
	pairs := [][2]string{
		{fmt.Sprintf("%s[%d]", c.P, c.N), fmt.Sprintf("%s[position() = %d]", c.P, c.N)},
		{c.P + "[last()]", c.P + "[position() = last()]"},
		{fmt.Sprintf("%s[%d.5]", c.P, c.N), c.P + "[false()]"},
		{c.P + "[position() > 1][1]", c.P + "[2]"},
		{c.P + "[true()][last()]", c.P + "[last()]"},
	}
	for _, pr := range pairs {
		a, err := execNodes(p, pr[0])
		if err != nil {
			return err
		}
		b, err := execNodes(p, pr[1])
		if err != nil {
			return err
		}
		st.Eval(1)
		if !sameNodeList(a, b) {
			return fmt.Errorf("%s selects %v but %s selects %v", pr[0], refsOfCursors(a, p.loc), pr[1], refsOfCursors(b, p.loc))
		}
		if len(a) >= 1 {
			st.NonTrivial(pr[0] + fmt.Sprint(c.Events))
		}
	}
	// (E)[1] is the first node of E in document order whatever axis E ends with
	all, err := execNodes(p, c.P)
	if err != nil {
		return err
	}
	first, err := execNodes(p, "("+c.P+")[1]")
	if err != nil {
		return err
	}
	st.Eval(1)
	if len(all) == 0 {
		if len(first) != 0 {
			return fmt.Errorf("(%s)[1] selects %v from an empty node-set", c.P, refsOfCursors(first, p.loc))
		}
	} else {
		min := all[0]
		for _, x := range all {
			if p.loc.ToNode[x].Ord < p.loc.ToNode[min].Ord {
				min = x
			}
		}
		if len(first) != 1 || first[0] != min {
			return fmt.Errorf("(%s)[1] selects %v, the first node in document order of %v is %s", c.P, refsOfCursors(first, p.loc), refsOfCursors(all, p.loc), p.loc.ToNode[min].Ref())
		}
	}
	// per parent: count(P[position() <= k]) restricted to that parent = min(k, its children in P)
	kids, err := execNodes(p, c.Child)
	if err != nil {
		return err
	}
	k := c.N
	lim, err := execNodes(p, fmt.Sprintf("%s[position() <= %d]", c.Child, k))
	if err != nil {
		return err
	}
	st.Eval(1)
	perParent := map[store.Cursor]int{}
	for _, x := range kids {
		perParent[x.Parent()]++
	}
	got := map[store.Cursor]int{}
	for _, x := range lim {
		got[x.Parent()]++
	}
	parents := 0
	for par, n := range perParent {
		want := n
		if k < want {
			want = k
		}
		if want < 0 {
			want = 0
		}
		if got[par] != want {
			return fmt.Errorf("%s[position() <= %d] selects %d children of %s, which has %d matching children (want %d)", c.Child, k, got[par], p.loc.ToNode[par].Ref(), n, want)
		}
		if n >= 2 {
			parents++
		}
	}
	if parents >= 2 {
		key := "perparent" + c.Child + fmt.Sprint(k) + fmt.Sprint(c.Events)
		st.NonTrivial(key)
		if len(c.Events) <= 30 {
			st.Sample(key, map[string]any{"events": eventStrings(c.Events), "law": fmt.Sprintf("count per parent of %s[position() <= %d]", c.Child, k)})
		}
	}
	return nil
}
