package props

import (
	"fmt"
	"strings"
	"math"

	"pgregory.net/rapid"

	"verif/xast"
	"verif/xmodel"
)

// numPool is the boundary pool of doubles used for variables.
var numPool = []float64{0, math.Copysign(0, -1), 1, -1, 2, 3, 0.5, -0.5, 1.5, -1.5, 2.5, -2.5, 0.49999999999999994, 10, 9,
	math.NaN(), math.Inf(1), math.Inf(-1), 5e-324, -5e-324, 2.2250738585072014e-308, 1e-7, 1e21, 1e300, -1e300,
	9007199254740991, 9007199254740992, 9007199254740993, 9223372036854775807, 9223372036854775808, 18446744073709551616, -9223372036854775808,
	0.1 + 0.2, 0.3, 1.0000000000001, 1.0000000000000002, 1e15 + 1, 123456789.12500001, 1.7976931348623157e308, 4.9, -4.9, 123456789.125, 1e15, 1e16, 4503599627370496.5, 4503599627370497}

func genFloat(t *rapid.T, label string) float64 {
	if rapid.IntRange(0, 3).Draw(t, label+"Pool") != 0 {
		return numPool[rapid.IntRange(0, len(numPool)-1).Draw(t, label+"Idx")]
	}
	return rapid.Float64().Draw(t, label)
}

var strPool = []string{"", "a", "abc", "1", "10", "9", " 12 ", "1e3", "+1", "-0", "-5", "NaN", "Infinity", "-Infinity", "0x10", "0x1p4", "1_0",
	".5", "5.", ".", "-", "--1", "1 2", " 12", "12 ", "\t4\n", "\r\n 7", "inf", "1E3", "é", "€uro", "𝄞clef", "é", "a'b", "a\"b", "a'\"b",
	"x y", "  x  y  ", " em", "true", "false", "0", "00", "-.5", "1.", "007", "1.5", "ab", "ba", "aXb", "日本語",
	// numerals with more digits than a double holds: the nearest double, decided by ALL the digits
	"9007199254740993.00000000000000000000000000000000000000000001", "0.00000000000000000000001", "0.0000000000000000000000007", "3." + strings.Repeat("0", 60) + "1",
	"0.1000000000000000055511151231257827021181583404541015625", "123456789012345678901234567890", "0.000000000000000000000000000000000000000000000000000001234567"}

// longString repeats a pool string up to 33-300 characters (size thresholds:
// small-buffer paths, lookup tables, chunked copies).
func longString(t *rapid.T, label string) string {
	if rapid.IntRange(0, 3).Draw(t, label+"Distinct") == 0 {
		// 95 to 400 DIFFERENT characters (positions beyond 127 and 255 in lookup tables)
		var sb strings.Builder
		for r, n := rune(0x21), rapid.IntRange(95, 400).Draw(t, label+"DistinctLen"); n > 0; r, n = r+1, n-1 {
			if r == 0x7f {
				r = 0xa1
			}
			sb.WriteRune(r)
		}
		s := sb.String()
		if rapid.Bool().Draw(t, label+"Reversed") {
			rs := []rune(s)
			for i, j := 0, len(rs)-1; i < j; i, j = i+1, j-1 {
				rs[i], rs[j] = rs[j], rs[i]
			}
			s = string(rs)
		}
		return s
	}
	unit := []string{"ab", "a b ", "é", "𝄞x", "12", " ", "abc-", "x\ty\n"}[rapid.IntRange(0, 7).Draw(t, label+"Unit")]
	n := []int{33, 64, 65, 100, 129, 257, 300}[rapid.IntRange(0, 6).Draw(t, label+"Len")]
	var sb strings.Builder
	for i := 0; i < n; i += len([]rune(unit)) {
		sb.WriteString(unit)
	}
	return sb.String()
}

func genString(t *rapid.T, label string) string {
	switch rapid.IntRange(0, 9).Draw(t, label+"Kind") {
	case 9:
		return longString(t, label)
	case 0, 5:
		return rapid.StringOfN(rapid.SampledFrom([]rune("ab1 .-\t\n\r é€𝄞́ ")), 0, 8, -1).Draw(t, label)
	case 1, 6:
		return rapid.String().Draw(t, label)
	}
	return strPool[rapid.IntRange(0, len(strPool)-1).Draw(t, label+"Idx")]
}

type caseOpts struct {
	cfg      xmodel.GenCfg
	anyCtx   bool // context node drawn among all nodes (else the root)
	vars     bool
	nodeVars bool
}

// genDocCase draws a document, bindings and variables; the expression is
// then produced by mk with a generator set up for that material.
func genDocCase(t *rapid.T, o caseOpts, mk func(g *xast.G, p *prepared) *xast.Expr, style xast.Style) (*evalCase, *prepared) {
	ev := xmodel.Gen(t, o.cfg)
	p, err := prepareDoc(ev)
	if err != nil {
		st.Discard("document-not-mirrored")
		return nil, nil
	}
	ns := genBindings(t)
	c := &evalCase{Events: ev, Ctx: "/", NS: ns}
	elems, attrs, targets := docNames(p.doc)
	env := xast.GenEnv{ElemNames: queryable(elems), AttrNames: queryable(attrs), PITargets: targets, Prefixes: prefixesOf(ns)}
	if o.vars {
		for i := 0; i < 2; i++ {
			name := fmt.Sprintf("n%d", i)
			c.Vars = append(c.Vars, varBinding{Local: name, T: "num", Num: fmtFloat(genFloat(t, name))})
			env.NumVars = append(env.NumVars, name)
		}
		for i := 0; i < 2; i++ {
			name := fmt.Sprintf("s%d", i)
			c.Vars = append(c.Vars, varBinding{Local: name, T: "str", Str: genString(t, name)})
			env.StrVars = append(env.StrVars, name)
		}
		c.Vars = append(c.Vars, varBinding{Local: "t", T: "bool", Bool: true}, varBinding{Local: "f", T: "bool", Bool: false})
		env.BoolVars = []string{"t", "f"}
		c.Vars = append(c.Vars, varBinding{Space: "urn:x", Local: "nv", T: "num", Num: fmtFloat(genFloat(t, "nsNum"))})
		env.NumVars = append(env.NumVars, "x:nv")
	}
	if o.nodeVars {
		n := rapid.IntRange(0, 4).Draw(t, "nodeVarSize")
		var refs []string
		seen := map[string]bool{}
		for i := 0; i < n; i++ {
			m := p.doc.All[rapid.IntRange(0, len(p.doc.All)-1).Draw(t, "nodeVarNode")]
			if !seen[m.Ref()] {
				seen[m.Ref()] = true
				refs = append(refs, m.Ref())
			}
		}
		c.Vars = append(c.Vars, varBinding{Local: "v", T: "nodes", Nodes: refs})
		env.NodeVars = []string{"v"}
	}
	if o.anyCtx {
		c.Ctx = p.doc.All[rapid.IntRange(0, len(p.doc.All)-1).Draw(t, "ctxNode")].Ref()
	}
	// what '/' means for a query started at an inner cursor is not stated by
	// the properties: absolute paths only in queries from the root cursor
	env.NoAbs = c.Ctx != "/"
	g := &xast.G{T: t, Env: env}
	c.Expr = mk(g, p)
	c.Text = xast.Render(c.Expr, xast.RapidChooser{T: t}, style)
	return c, p
}

func drawStyle(t *rapid.T) xast.Style {
	return xast.Style{Parens: rapid.Bool().Draw(t, "styleParens"), WS: rapid.Bool().Draw(t, "styleWS"), Abbrev: rapid.Bool().Draw(t, "styleAbbrev")}
}
