package props

import (
	"bytes"
	"hash/fnv"
	"io"
	"strings"
	"testing/iotest"
)

// readerFor hands the document to the library through one of several
// io.Readers - which one is a function of the content, so that a case
// replays the same way.  All of them deliver exactly the same bytes:
//
//	0  *bytes.Reader (seekable, at offset 0)
//	1  a reader that returns the last data together with io.EOF
//	2  one byte per Read
//	3  half of what is asked for per Read
//	4  a seekable reader positioned AFTER a prefix that is not part of the document
//	5  *strings.Reader
//	6  a reader without any optional method (no Seek, no ReadByte, no WriteTo)
func readerFor(doc []byte) io.Reader {
	h := fnv.New32a()
	h.Write(doc)
	switch h.Sum32() % 7 {
	case 1:
		return iotest.DataErrReader(bytes.NewReader(doc))
	case 2:
		return iotest.OneByteReader(bytes.NewReader(doc))
	case 3:
		return iotest.HalfReader(bytes.NewReader(doc))
	case 4:
		prefix := []byte("<!DOCTYPE html><p>not part of the document</p>\n{\"x\": 1} ")
		r := bytes.NewReader(append(append([]byte{}, prefix...), doc...))
		r.Seek(int64(len(prefix)), io.SeekStart)
		return r
	case 5:
		return strings.NewReader(string(doc))
	case 6:
		return struct{ io.Reader }{bytes.NewReader(doc)}
	}
	return bytes.NewReader(doc)
}
