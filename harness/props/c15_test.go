package props

import (
	"encoding/xml"
	"fmt"
	"io"
	"os"
	"path/filepath"
	"strings"
	"testing"
	"time"
	"unicode/utf8"

	"github.com/ChrisTrenkamp/xsel"
	"github.com/ChrisTrenkamp/xsel/store"
	"pgregory.net/rapid"

	"verif/xast"
	"verif/xmodel"
)

// C15 - no input crashes the library: failures are returned as errors.

type c15Case struct {
	Kind  string            `json:"kind"` // expr xml html json
	Expr  string            `json:"expr,omitempty"`
	Doc   []byte            `json:"doc,omitempty"`
	Typed bool              `json:"typed,omitempty"` // the expression is well-typed XPath 1.0 (rendered from a typed AST)
	NS    map[string]string `json:"ns,omitempty"`
	Vars  []varBinding      `json:"vars,omitempty"`
}

var c15Crash = reg("C15", "c15-nocrash", checkC15)
var c15Unmarshal = reg("C15", "c15-unmarshal-target", checkC19Bad)

const callDeadline = 20 * time.Second

// withDeadline runs f; an overrun is re-tried once with a longer deadline
// before it is reported (a time budget alone is never a violation signal
// unless it is exceeded by three orders of magnitude twice).
func withDeadline(what string, f func() error) error {
	run := func(d time.Duration) (error, bool) {
		done := make(chan error, 1)
		go func() { done <- f() }()
		select {
		case err := <-done:
			return err, true
		case <-time.After(d):
			return nil, false
		}
	}
	err, ok := run(callDeadline)
	if ok {
		return err
	}
	err, ok = run(3 * callDeadline)
	if ok {
		return err
	}
	return fmt.Errorf("%s did not terminate within %v (twice)", what, 3*callDeadline)
}

// traverse walks a cursor tree completely; every accessor must work.
func traverse(c store.Cursor, budget *int) error {
	if c == nil {
		return fmt.Errorf("nil cursor inside the tree")
	}
	*budget--
	if *budget < 0 {
		return nil
	}
	_ = c.Pos()
	_ = c.Node()
	_ = xsel.GetCursorString(c)
	for _, lists := range [][]store.Cursor{c.Namespaces(), c.Attributes(), c.Children()} {
		for _, x := range lists {
			if err := traverse(x, budget); err != nil {
				return err
			}
		}
	}
	return nil
}

func checkReader(kind string, doc []byte) (cur store.Cursor, err error) {
	defer func() {
		if r := recover(); r != nil {
			err = fmt.Errorf("Read%s panicked: %v", strings.Title(kind), r)
		}
	}()
	var rerr error
	switch kind {
	case "xml":
		cur, rerr = safeReadXML(doc)
		// the same document with decoder options a caller may set (any outcome but a panic or a nil/nil return)
		for i, opt := range xmlOptionVariants {
			if (len(doc)+i)%3 != 0 {
				continue
			}
			oc, oerr := safeReadXMLWith(doc, opt)
			if pe, ok := oerr.(*panicError); ok {
				return nil, fmt.Errorf("ReadXml with option variant %d panicked: %v", i, pe.v)
			}
			if oerr == nil && oc == nil {
				return nil, fmt.Errorf("ReadXml with option variant %d returned a nil cursor and a nil error", i)
			}
		}
	case "html":
		cur, rerr = safeReadHTML(string(doc))
	default:
		cur, rerr = safeReadJSON(string(doc))
	}
	if pe, ok := rerr.(*panicError); ok {
		return nil, fmt.Errorf("Read%s panicked: %v", strings.Title(kind), pe.v)
	}
	if rerr == nil {
		if cur == nil {
			return nil, fmt.Errorf("Read%s returned a nil cursor and a nil error", strings.Title(kind))
		}
		budget := 200000
		if err := traverse(cur, &budget); err != nil {
			return nil, fmt.Errorf("Read%s returned an unusable tree: %v", strings.Title(kind), err)
		}
		return cur, nil
	}
	return nil, nil // a reported error is a legal outcome
}

var c15DocXML = []byte(`<r xmlns:p="urn:x" id="1"><a k="2">10<b>9</b></a><!--c--><?t d?><p:a xml:lang="en"> 12 </p:a><a/>text</r>`)

func checkC15(c *c15Case) error {
	err := withDeadline(fmt.Sprintf("%s input %q", c.Kind, c.Expr+string(c.Doc)), func() error { return checkC15Inner(c) })
	if err != nil && len(c.Expr)+len(c.Doc) > 2048 && strings.Contains(err.Error(), "did not terminate within") {
		// a size-stress document (hundreds of namespace nodes per element) under a query that is quadratic or worse
		// in them legitimately needs minutes on a busy machine: a time budget cannot tell that from a call that
		// never returns, so the case is inconclusive, not a violation (small inputs stay judged)
		st.Discard("overrun-on-large-input")
		return nil
	}
	return err
}

func checkC15Inner(c *c15Case) error {
	if c.Kind != "expr" {
		_, err := checkReader(c.Kind, c.Doc)
		return err
	}
	doc := c.Doc
	if doc == nil {
		doc = c15DocXML
	}
	cur, err := checkReader("xml", doc)
	if err != nil {
		return err
	}
	g, berr := safeBuild(c.Expr)
	if pe, ok := berr.(*panicError); ok {
		return fmt.Errorf("BuildExpr(%q) panicked: %v", c.Expr, pe.v)
	}
	if berr != nil {
		if c.Typed && !(excluded("C08-slash-star-ambiguity") && slashStarAmbiguous(c.Expr)) {
			return fmt.Errorf("BuildExpr(%q) rejected a well-typed expression: %v", c.Expr, firstLine(berr.Error()))
		}
		return nil
	}
	if g.BSR == nil {
		return fmt.Errorf("BuildExpr(%q) returned an empty query and a nil error", c.Expr)
	}
	if cur == nil {
		return nil
	}
	ec := &evalCase{NS: c.NS, Vars: c.Vars}
	var set []xsel.ContextApply
	for k, v := range ec.NS {
		set = append(set, xsel.WithNS(k, v))
	}
	for _, b := range ec.Vars {
		switch b.T {
		case "num":
			set = append(set, xsel.WithVariableNS(b.Space, b.Local, xsel.Number(parseFloat(b.Num))))
		case "str":
			set = append(set, xsel.WithVariableNS(b.Space, b.Local, xsel.String(b.Str)))
		case "bool":
			set = append(set, xsel.WithVariableNS(b.Space, b.Local, xsel.Bool(b.Bool)))
		case "nodes":
			set = append(set, xsel.WithVariableNS(b.Space, b.Local, xsel.NodeSet(cur.Children())))
		case "nil":
			set = append(set, xsel.WithVariableNS(b.Space, b.Local, nil))
		}
	}
	// from the root and from an inner node
	starts := []store.Cursor{cur}
	if ch := cur.Children(); len(ch) > 0 {
		starts = append(starts, ch[0])
		if at := ch[0].Attributes(); len(at) > 0 {
			starts = append(starts, at[0])
		}
	}
	// ... and from user-written cursors over the same tree (fresh objects per call, an uncomparable
	// value type, positions beyond 32 bits)
	for k, n := 0, len(starts); k < n; k++ {
		starts = append(starts, viewOf(starts[k], len(c.Expr)+k))
	}
	for _, s := range starts {
		res, xerr := safeExec(s, &g, set...)
		if pe, ok := xerr.(*panicError); ok {
			return fmt.Errorf("Exec(%q) panicked: %v", c.Expr, pe.v)
		}
		if xerr == nil && res == nil {
			return fmt.Errorf("Exec(%q) returned a nil result and a nil error", c.Expr)
		}
		if xerr != nil && c.Typed && strings.Contains(xerr.Error(), "xpath query panic") {
			return fmt.Errorf("Exec(%q): a well-typed query failed with an internal panic: %v", c.Expr, xerr)
		}
		if xerr == nil {
			if err := useResult(res); err != nil {
				return fmt.Errorf("Exec(%q): %v", c.Expr, err)
			}
		}
	}
	return nil
}

func useResult(res xsel.Result) (err error) {
	defer func() {
		if r := recover(); r != nil {
			err = fmt.Errorf("using the result panicked: %v", r)
		}
	}()
	_, _, _ = res.String(), res.Number(), res.Bool()
	if ns, ok := res.(xsel.NodeSet); ok {
		for _, c := range ns {
			if c == nil {
				return fmt.Errorf("the node-set contains a nil cursor")
			}
			_ = xsel.GetCursorString(c)
		}
	}
	return nil
}

var hostileExprs = []string{"", " ", "/", "//", "///", "(", ")", "[", "]", "()", "[]", "@", "$", "$x", ".", "..", "...", "*", "**", "1 div 0", "1 mod 0", "-", "--", "'", "\"", "'a", "a:", ":a", "a:b:c",
	"substring('12345', -5, 2)", "substring('x', 1e308, -1e308)", "5 mod 0.5", "-9223372036854775808 mod -1", "round(1e300)", "9223372036854775808 mod 2", "sum(/)", "count()", "count(1)", "1|2", "(1)[1]", "'a'/b", "$n/x", "string(1,2)",
	"concat()", "concat('a')", "translate('a','b')", "lang()", "position(1)", "last(1)", "not()", "true(1)", "name(1)", "local-name('a')", "namespace-uri(1)", "sum(1)", "sum('a')", "floor()", "id('x')",
	"//*[1][2][3][4][5][6]", "((((((((((1))))))))))", "- - - - - - - 1", "1+1+1+1+1+1+1+1+1+1+1+1+1+1+1+1+1+1+1+1", "a/b/c/d/e/f/g/h/i/j/k/l/m/n/o/p", "//a//b//c//d//e//f", "child::child::child", "self::self", "processing-instruction('a'", "processing-instruction(1)",
	"\x00", "a\x00b", "\xff\xfe", "\xed\xa0\x80", "1e400", "99999999999999999999999999999999999999999999", "0.00000000000000000000000000000000000000000001", "１２３", "a b", "a | b", "/ * 2", "1 . 5", ". 5", "1.", "_a", "div", "and or", "/div", "@@a", "a[", "a]", "a[]", "a[[1]]", "f(", "f(,)", "f(1,)", "$ v", "$v:", "$:v",
	// $z is bound to a nil Result
	"$z", " $z ", "($z)", "$z | $z", "$z/a", "count($z)", "string($z)", "$z = 1", "-$z", "$z[1]", "$z or 1", "not($z)", "concat($z, 'a')", "//*[$z]", "sum($z)", "name($z)", "$z//a", "($z)[1]/a"}

func TestC15(t *testing.T) {
	runWitnesses(t, "C15")
	t.Run("hostile-constants", func(t *testing.T) {
		defer finalizeFailures(t)
		if envShard != 0 {
			return
		}
		for _, e := range hostileExprs {
			c := &c15Case{Kind: "expr", Expr: e, Vars: []varBinding{{Local: "n", T: "num", Num: "1.5"}, {Local: "v", T: "nodes"}, {Local: "z", T: "nil"}}}
			st.Eval(1)
			st.Class("hostile-constant")
			if len(strings.Fields(e)) >= 1 {
				st.NonTrivial("hostile|" + e)
			}
			c15Crash.run(t, c)
		}
	})
	runProp(t, "expressions", 75000, 2000000, func(t *rapid.T) {
		c := &c15Case{Kind: "expr", NS: map[string]string{"x": "urn:x", "p": "urn:x"}}
		c.Vars = []varBinding{{Local: "n0", T: "num", Num: fmtFloat(genFloat(t, "n0"))}, {Local: "n1", T: "num", Num: fmtFloat(genBound(t, "n1"))},
			{Local: "s0", T: "str", Str: genString(t, "s0")}, {Local: "s1", T: "str", Str: genUni(t, "s1")}, {Local: "t", T: "bool", Bool: true}, {Local: "f", T: "bool"}, {Local: "v", T: "nodes"}}
		if rapid.IntRange(0, 9).Draw(t, "nilVar") == 0 {
			c.Vars = append(c.Vars, varBinding{Local: "z", T: "nil"})
		}
		g := &xast.G{T: t, Env: xast.GenEnv{ElemNames: []string{"a", "b", "r", "child", "a-b"}, AttrNames: []string{"id", "k", "lang"}, Prefixes: []string{"x", "p"}, PITargets: []string{"t"},
			NumVars: []string{"n0", "n1"}, StrVars: []string{"s0", "s1", "s2"}, BoolVars: []string{"t", "f"}, NodeVars: []string{"v"}}}
		// a string variable holding arbitrary bytes (callers can bind any Go string, and
		// ReadHtml passes invalid bytes of the source through)
		bytePool := []string{"a\xff", "\xff", "ab\xc3", "\xf0\x9f", "é\xa0", "\xed\xa0\x80x", "x\x80", "\xc3\xa9\xc3", "12\xfe", "\xff\xff\xff", "𝄞\xf0"}
		s2 := bytePool[rapid.IntRange(0, len(bytePool)-1).Draw(t, "s2Idx")]
		if rapid.IntRange(0, 2).Draw(t, "s2Raw") == 0 {
			s2 = string(rapid.SliceOfN(rapid.Byte(), 0, 6).Draw(t, "s2"))
		}
		c.Vars = append(c.Vars, varBinding{Local: "s2", T: "str", Str: s2})
		src := rapid.IntRange(0, 10).Draw(t, "source")
		switch {
		case src == 10:
			// every string function over the byte string, with boundary positions
			tmpl := []string{"substring($s2, $n1, $n0)", "substring($s2, $n1)", "substring($s2, 1, $n1)", "substring($s2, $n1, 1)", "translate($s2, $s0, $s1)", "translate($s0, $s2, $s1)", "translate($s1, $s0, $s2)",
				"string-length($s2)", "normalize-space($s2)", "substring-before($s2, $s1)", "substring-after($s2, $s1)", "substring-before($s1, $s2)", "substring-after($s1, $s2)", "contains($s2, $s1)",
				"starts-with($s2, $s1)", "concat($s2, $s1, $s2)", "number($s2)", "boolean($s2)", "$s2 = $s1", "$s2 < $n0", "//*[. = $s2]", "string($s2)", "lang($s2)", "id($s2)"}
			c.Expr, c.Typed = tmpl[rapid.IntRange(0, len(tmpl)-1).Draw(t, "tmpl")], true
			st.Class("source=string-function-over-bytes")
		case src <= 3:
			e := g.Any(3)
			c.Expr, c.Typed = xast.Render(e, xast.RapidChooser{T: t}, drawStyle(t)), true
			st.Class("source=typed-ast")
		case src <= 5:
			// ill-typed but syntactically valid: any operand anywhere
			e := genC08(g, 3)
			if rapid.Bool().Draw(t, "illTyped") {
				e = xast.Filter(g.Any(1), []*xast.Expr{g.Pred(1)}, g.RelPath(1, 2).Steps...)
			}
			c.Expr = xast.Render(e, xast.RapidChooser{T: t}, drawStyle(t))
			st.Class("source=ill-typed-ast")
		case src <= 7:
			text, kind := mutate(t, xast.Tokens(genC08(g, 2)))
			c.Expr = text
			st.Class("source=mutated:" + kind)
		case src == 8:
			c.Expr = rapid.StringOfN(rapid.SampledFrom([]rune("ab1 /*@[]().:$'\"|+-=<>!,é€\t\n#_")), 0, 24, -1).Draw(t, "rawish")
			st.Class("source=raw-token-soup")
		default:
			c.Expr = rapid.String().Draw(t, "raw")
			st.Class("source=raw-unicode")
		}
		st.Eval(1)
		if len(lexTokens(c.Expr)) >= 3 {
			st.NonTrivial(c.Expr + fmt.Sprint(c.Vars[0].Num, c.Vars[1].Num))
			if len(c.Expr) < 100 && utf8.ValidString(c.Expr) {
				st.Sample(c.Expr, map[string]any{"expr": c.Expr, "typed": c.Typed})
			}
		}
		c15Crash.run(t, c)
	})
	runProp(t, "documents", 45000, 1500000, func(t *rapid.T) {
		kind := []string{"xml", "html", "json"}[rapid.IntRange(0, 2).Draw(t, "kind")]
		c := &c15Case{Kind: kind}
		valid := genCLIFileData(t, kind, false)
		switch rapid.IntRange(0, 4).Draw(t, "docSource") {
		case 0:
			c.Doc = valid
			st.Class(kind + " valid")
		case 1, 2:
			// mutate: cut, duplicate or overwrite a region
			b := append([]byte{}, valid...)
			if len(b) > 0 {
				i := rapid.IntRange(0, len(b)-1).Draw(t, "at")
				switch rapid.IntRange(0, 3).Draw(t, "mut") {
				case 0:
					b = b[:i]
				case 1:
					b = append(b[:i], append([]byte(string(b[i:])), b[i:]...)...)
				case 2:
					b[i] = byte(rapid.IntRange(0, 255).Draw(t, "byte"))
				default:
					b = append(b[:i], append([]byte([]string{"<", ">", "&", "\"", "]]>", "<!--", "<?", "{", "[", ",", "\x00", "\xff", "<![CDATA[", "&#0;", "&#xD800;"}[rapid.IntRange(0, 14).Draw(t, "ins")]), b[i:]...)...)
				}
			}
			c.Doc = b
			st.Class(kind + " mutated")
		default:
			c.Doc = rapid.SliceOfN(rapid.Byte(), 0, 64).Draw(t, "rawBytes")
			if kind == "html" && rapid.Bool().Draw(t, "withDoctype") {
				c.Doc = append([]byte("<!DOCTYPE html>"), c.Doc...)
			}
			st.Class(kind + " raw")
		}
		if kind == "html" && rapid.IntRange(0, 5).Draw(t, "beforeDoctype") == 0 {
			// something in front of the doctype (a "saved from" comment, white space, text): parsed or refused, but returned
			c.Doc = append([]byte([]string{"<!-- saved from url=(0014)about:internet -->", "<!--c-->\n", " \n", "x", "<!---->", "<?php ?>"}[rapid.IntRange(0, 5).Draw(t, "prolog")]), c.Doc...)
			st.Class("html with something in front of the doctype")
		}
		st.Eval(1)
		if len(c.Doc) >= 8 {
			st.NonTrivial(kind + string(c.Doc))
			if len(c.Doc) < 120 && utf8.Valid(c.Doc) {
				st.Sample(kind+string(c.Doc), map[string]any{"kind": kind, "doc": string(c.Doc)})
			}
		}
		c15Crash.run(t, c)
	})
	// arbitrary Unmarshal targets: an error, never a panic (the oracle is C19's)
	runProp(t, "unmarshal-targets", 4500, 50000, func(t *rapid.T) {
		kinds := c19BadKinds
		c := &c19BadCase{Events: xmodel.Gen(t, c19Doc()), Target: kinds[rapid.IntRange(0, len(kinds)-1).Draw(t, "kind")],
			Select: pick(t, "select", []string{"/*", "//a", "/nosuch", "//*", "1", "'s'", "true()", "//@*", "//text()"})}
		st.Class("unmarshal " + c.Target)
		st.NonTrivial("unmarshal|" + c.Target + "|" + c.Select)
		c15Unmarshal.run(t, c)
	})
	runProp(t, "pairs", 18000, 500000, func(t *rapid.T) {
		// expression x generated document
		ev := xmodel.Gen(t, xmlCfg())
		b, _, _, ok := serialise(t, xmodel.Build(ev), false)
		if !ok {
			st.Discard("not-encodable-in-charset")
			return
		}
		elems, attrs, targets := docNames(xmodel.Build(ev))
		g := &xast.G{T: t, Env: xast.GenEnv{ElemNames: queryable(elems), AttrNames: queryable(attrs), PITargets: targets, Prefixes: []string{"x"}}}
		e := g.Any(3)
		c := &c15Case{Kind: "expr", Doc: b, Expr: xast.Render(e, xast.RapidChooser{T: t}, drawStyle(t)), Typed: true, NS: map[string]string{"x": "urn:x"}}
		st.Eval(1)
		st.Class("pair")
		st.NonTrivial(c.Expr + string(b))
		c15Crash.run(t, c)
	})
}

// ---- native fuzz targets (thorough tier) ----

func fuzzFail(t *testing.T, name string, c *c15Case, err error) {
	dir := filepath.Join(verifDir, "replays", "C15")
	os.MkdirAll(dir, 0o755)
	recordFailure("C15", "c15-nocrash", c, err.Error())
	b, _ := os.ReadFile(pendingPath("c15-nocrash"))
	dst := filepath.Join(dir, "fuzz-"+name+".json")
	os.WriteFile(dst, b, 0o644)
	os.Remove(pendingPath("c15-nocrash"))
	t.Fatalf("VIOLATION property=C15 replay=%s\n  detail: %v", dst, err)
}

func FuzzExpr(f *testing.F) {
	for _, e := range hostileExprs {
		f.Add(e)
	}
	for _, e := range []string{"/root/a[last()]", "//node()[. = $n0]", "count(//a) + sum(//b) div 2", "substring(//a, 1.5, 2.6)", "//*[lang('en')]", "/r/p:a | //@*", "translate(//a, 'ab', 'ba')"} {
		f.Add(e)
	}
	f.Fuzz(func(t *testing.T, expr string) {
		if len(expr) > 512 {
			// parsing time grows quadratically with nesting depth (3000 nested
			// parentheses take 12 s): longer strings only slow the campaign down,
			// and the fuzzing engine kills a worker whose input runs for 10 s
			return
		}
		c := &c15Case{Kind: "expr", Expr: expr, NS: map[string]string{"p": "urn:x"}, Vars: []varBinding{{Local: "n0", T: "num", Num: "-0.5"}, {Local: "v", T: "nodes"}}}
		if err := checkC15(c); err != nil {
			fuzzFail(t, "FuzzExpr", c, err)
		}
	})
}

func fuzzDoc(f *testing.F, kind string, seeds []string) {
	for _, s := range seeds {
		f.Add([]byte(s))
	}
	f.Fuzz(func(t *testing.T, doc []byte) {
		if len(doc) > 1<<16 {
			return
		}
		c := &c15Case{Kind: kind, Doc: doc}
		if err := checkC15(c); err != nil {
			fuzzFail(t, "Fuzz"+strings.Title(kind), c, err)
		}
	})
}

func FuzzXml(f *testing.F) {
	fuzzDoc(f, "xml", []string{string(c15DocXML), "<a/>", "<?xml version=\"1.0\" encoding=\"ISO-8859-1\"?><a>\xe9</a>", "<a><![CDATA[x]]></a>", "<a xmlns=\"u\"><b xmlns=\"\"/></a>", "<!DOCTYPE a [<!ENTITY e \"v\">]><a>&e;</a>", "<a>&#0;</a>", "<a", "<a></b>", strings.Repeat("<a>", 2000)})
}

func FuzzHtml(f *testing.F) {
	fuzzDoc(f, "html", []string{"<!DOCTYPE html><p>x", "<!DOCTYPE html><table><tr><td>x<table>", "<!DOCTYPE html><svg xmlns:xlink=\"x\"><foreignObject><p>", "<!DOCTYPE html><template><td>", "<p>no doctype", "<!DOCTYPE html></html><!--c-->", "<!DOCTYPE html>" + strings.Repeat("<b>", 600)})
}

func FuzzJson(f *testing.F) {
	fuzzDoc(f, "json", []string{`{"a":[0,["b","c",{"d":2.7}]],"n":null}`, `[1,2`, `{"a":`, `"s" 1 true`, `{"":{"":[]}}`, `[[[[[[[[[[[[`, `1e999`, `{"a":1}}`, strings.Repeat("[", 5000)})
}

func FuzzPair(f *testing.F) {
	f.Add("//a[. > 1]", string(c15DocXML))
	f.Add("count(//@*) div 0", "<a b='1'/>")
	f.Add("//*[position() = last()]/..", "<a><b/><c/></a>")
	f.Fuzz(func(t *testing.T, expr, doc string) {
		if len(doc) > 1<<14 || len(expr) > 512 {
			return
		}
		c := &c15Case{Kind: "expr", Expr: expr, Doc: []byte(doc)}
		if err := checkC15(c); err != nil {
			fuzzFail(t, "FuzzPair", c, err)
		}
	})
}

var xmlOptionVariants = []xsel.XmlParseOptions{
	func(d *xml.Decoder) { d.Strict = false },
	func(d *xml.Decoder) { d.CharsetReader = nil },
	func(d *xml.Decoder) { d.Entity = map[string]string{"nbsp": "\u00a0", "e": "<x/>"} },
	func(d *xml.Decoder) { d.Strict, d.AutoClose, d.Entity = false, xml.HTMLAutoClose, xml.HTMLEntity },
	func(d *xml.Decoder) { d.DefaultSpace = "urn:default" },
	func(d *xml.Decoder) {
		d.CharsetReader = func(label string, in io.Reader) (io.Reader, error) { return nil, fmt.Errorf("no charset %q", label) }
	},
	func(d *xml.Decoder) {
		d.CharsetReader = func(label string, in io.Reader) (io.Reader, error) { return in, nil }
	},
}

func safeReadXMLWith(b []byte, opt xsel.XmlParseOptions) (c store.Cursor, err error) {
	defer func() {
		if r := recover(); r != nil {
			err = &panicError{r}
		}
	}()
	return xsel.ReadXml(readerFor(b), opt)
}
