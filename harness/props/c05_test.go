package props

import (
	"fmt"
	"math"
	"strings"
	"testing"

	"pgregory.net/rapid"

	"verif/xast"
	"verif/xmodel"
	"verif/xparse"
	"verif/xref"
)

// C05 - comparison operators: existential and typed comparison.

var c05Cmp = reg("C05", "c05-cmp", checkEvalCase)

var cmpOps = []string{"=", "!=", "<", "<=", ">", ">="}

// the pool document: element texts from the string pool that matters for
// comparisons
var c05PoolTexts = []string{"10", "9", " 9 ", "abc", "", "NaN", "-1", "2.50", "2.5", "b", "1e1", "010"}

func c05PoolEvents() []xmodel.Event {
	ev := []xmodel.Event{{K: "S", Local: "r"}, {K: "N", Local: "xml", Value: xmodel.XMLNS}}
	for i, s := range c05PoolTexts {
		ev = append(ev, xmodel.Event{K: "S", Local: fmt.Sprintf("e%d", i)}, xmodel.Event{K: "A", Local: "v", Value: s})
		if s != "" {
			ev = append(ev, xmodel.Event{K: "T", Value: s})
		}
		ev = append(ev, xmodel.Event{K: "E"})
	}
	ev = append(ev, xmodel.Event{K: "E"})
	return ev
}

type operand struct {
	b    varBinding // bound as $l / $r
	cls  string
	path string // for node-sets: a path expression selecting the same nodes in the pool document
}

func c05Operands(p *prepared) []operand {
	var out []operand
	for _, f := range []float64{0, math.Copysign(0, -1), 1, -1, 9, 10, 2.5, math.NaN(), math.Inf(1), math.Inf(-1), 1e21, 0.1} {
		out = append(out, operand{b: varBinding{T: "num", Num: fmtFloat(f)}, cls: "number:" + numClass(f)})
	}
	for _, s := range []string{"", "10", "9", " 9 ", "abc", "NaN", "b", "1e1", "2.50", "true", "-1", "é"} {
		out = append(out, operand{b: varBinding{T: "str", Str: s}, cls: "string:" + strClass(s)})
	}
	out = append(out, operand{b: varBinding{T: "bool", Bool: true}, cls: "boolean"}, operand{b: varBinding{T: "bool", Bool: false}, cls: "boolean"})
	r := p.doc.Root.Children[0]
	ref := func(i int) string { return r.Children[i].Ref() }
	sets := [][]string{{}, {ref(0)}, {ref(1)}, {ref(2)}, {ref(3)}, {ref(4)}, {ref(5)}, {ref(6)}, {ref(7)}, {ref(9)}, {ref(10)},
		{ref(0), ref(1)}, {ref(1), ref(0)}, {ref(1), ref(2)}, {ref(0), ref(3)}, {ref(3), ref(9)}, {ref(4), ref(0)}, {ref(5), ref(1)},
		{ref(7), ref(8)}, {ref(6), ref(0), ref(3)}, {ref(0), ref(1), ref(2)}, {ref(10), ref(0)}, {ref(11), ref(0)},
		{r.Children[0].Attrs[0].Ref(), r.Children[3].Attrs[0].Ref()}, {r.Ref()}, {"/"}}
	for _, s := range sets {
		cls := "node-set:singleton"
		if len(s) == 0 {
			cls = "node-set:empty"
		} else if len(s) > 1 {
			cls = "node-set:several"
		}
		// the same node-set as a path: a union of absolute paths by position
		var parts []string
		for _, r := range s {
			n := p.doc.Resolve(r)
			switch {
			case n == p.doc.Root:
				parts = append(parts, "/")
			case n.Kind == xmodel.Attr:
				parts = append(parts, fmt.Sprintf("/r/%s/@v", n.Parent.Local))
			case n.Parent == p.doc.Root:
				parts = append(parts, "/r")
			default:
				parts = append(parts, "/r/"+n.Local)
			}
		}
		path := strings.Join(parts, " | ")
		if len(s) == 0 {
			path = "/r/nosuch"
		}
		out = append(out, operand{varBinding{T: "nodes", Nodes: s}, cls, path})
	}
	return out
}

func c05NonTrivial(l, r operand) bool {
	for _, o := range []operand{l, r} {
		if o.cls == "node-set:empty" || o.cls == "node-set:several" || o.cls == "number:NaN" || o.cls == "string:whitespace-padded-numeral" {
			return true
		}
	}
	// strings / nodes whose numeric and lexicographic order differ
	return (l.b.Str == "10" && r.b.Str == "9") || (l.b.Str == "9" && r.b.Str == "10")
}

func TestC05(t *testing.T) {
	runWitnesses(t, "C05")
	// exhaustive operand-pool matrix, split over the shards
	t.Run("matrix", func(t *testing.T) {
		defer finalizeFailures(t)
		ev := c05PoolEvents()
		p, err := prepareDoc(ev)
		if err != nil {
			t.Fatalf("pool document: %v", err)
		}
		ops := c05Operands(p)
		idx := 0
		for _, op := range cmpOps {
			expr := xast.Bin(op, xast.Var("l"), xast.Var("r"))
			text := xast.RenderMinimal(expr)
			for _, l := range ops {
				for _, r := range ops {
					idx++
					if idx%envShards != envShard {
						continue
					}
					lb, rb := l.b, r.b
					lb.Local, rb.Local = "l", "r"
					c := &evalCase{Events: ev, Ctx: "/", Expr: expr, Text: text, Vars: []varBinding{lb, rb}}
					_, _, err := evalPrepared(c, p)
					st.Eval(1)
					st.Class(l.cls[:4] + " " + op + " " + r.cls[:4])
					if c05NonTrivial(l, r) {
						key := fmt.Sprintf("%s|%v|%v", op, lb, rb)
						st.NonTrivial(key)
						st.Sample(key, map[string]any{"expr": text, "l": lb, "r": rb, "expected": lastRef.Describe()})
					}
					if err != nil {
						recordFailure("C05", "c05-cmp", c, err.Error())
						t.Fatalf("C05/matrix: %v", err)
					}
					// derived identities on the implementation alone
					if err := c05Identities(p, ev, op, lb, rb); err != nil {
						c.Text = err.Error()
						recordFailure("C05", "c05-cmp", c, err.Error())
						t.Fatalf("C05/matrix: %v", err)
					}
				}
			}
		}
		// the same matrix with every node-set operand written as a path expression
		for _, op := range cmpOps {
			for _, ns := range ops {
				if ns.path == "" {
					continue
				}
				for _, other := range ops {
					for side := 0; side < 2; side++ {
						idx++
						if idx%envShards != envShard {
							continue
						}
						ob := other.b
						var text string
						if side == 0 {
							ob.Local = "r"
							text = "(" + ns.path + ") " + op + " $r"
						} else {
							ob.Local = "l"
							text = "$l " + op + " (" + ns.path + ")"
						}
						ast, _, perr := xparse.Parse(text, xparse.Strict)
						if perr != nil {
							t.Fatalf("harness: %q does not parse: %v", text, perr)
						}
						c := &evalCase{Events: ev, Ctx: "/", Expr: ast, Text: text, Vars: []varBinding{ob}}
						_, _, err := evalPrepared(c, p)
						st.Eval(1)
						st.Class("path-operand " + op)
						if err != nil {
							recordFailure("C05", "c05-cmp", c, err.Error())
							t.Fatalf("C05/matrix: %v", err)
						}
					}
				}
			}
		}
		st.Note("matrix", fmt.Sprintf("all ordered pairs of %d pooled operands x 6 operators, enumerated completely over the shards", len(ops)))
	})
	// random operands: node-sets as paths over generated documents
	runProp(t, "random", 96000, 1000000, func(t *rapid.T) {
		c, p := genDocCase(t, caseOpts{cfg: xmodel.GenCfg{MaxDepth: 3, MaxKids: 4, Numeric: true, NoNS: true, Names: []string{"a", "b", "c"}, Stress: true}, vars: true, nodeVars: true},
			func(g *xast.G, p *prepared) *xast.Expr {
				operand := func(label string) *xast.Expr {
					switch rapid.IntRange(0, 6).Draw(g.T, label) {
					case 0:
						return g.Number(1)
					case 1:
						return g.String(1)
					case 2:
						return g.Bool(1)
					case 3:
						return xast.Var("v")
					}
					return g.NodeSet(1, false)
				}
				return xast.Bin(cmpOps[rapid.IntRange(0, 5).Draw(g.T, "op")], operand("l"), operand("r"))
			}, drawStyle(t))
		if c == nil {
			return
		}
		out, why, err := evalPrepared(c, p)
		if out == discarded {
			st.Discard(why)
			return
		}
		st.Eval(1)
		env := &xref.Env{Doc: p.doc, NS: c.NS}
		_, envx, _ := c.settings(p)
		env.Vars = envx.Vars
		lv, _ := env.Eval(c.Expr.A[0], xref.Ctx{Node: p.doc.Root, Pos: 1, Size: 1})
		rv, _ := env.Eval(c.Expr.A[1], xref.Ctx{Node: p.doc.Root, Pos: 1, Size: 1})
		st.Class("random " + lv.T.String() + " " + c.Expr.K + " " + rv.T.String())
		if (lv.T == xref.TNodeSet && len(lv.Nodes) != 1) || (rv.T == xref.TNodeSet && len(rv.Nodes) != 1) ||
			(lv.T == xref.TNumber && math.IsNaN(lv.N)) || (rv.T == xref.TNumber && math.IsNaN(rv.N)) {
			key := c.Text + fmt.Sprint(c.Events, c.Vars)
			st.NonTrivial(key)
			if len(c.Events) <= 24 {
				st.Sample(key, map[string]any{"events": eventStrings(c.Events), "expr": c.Text, "expected": lastRef.Describe()})
			}
		}
		if err != nil {
			recordFailure("C05", "c05-cmp", c, err.Error())
			t.Fatalf("C05/random: %v", err)
		}
	})
}

var mirror = map[string]string{"<": ">", "<=": ">=", ">": "<", ">=": "<=", "=": "=", "!=": "!="}

// c05Identities: L op R == R mirror(op) L, and for non-node-set operands
// L != R == not(L = R).
func c05Identities(p *prepared, ev []xmodel.Event, op string, lb, rb varBinding) error {
	run := func(text string) (bool, error) {
		c := &evalCase{Events: ev, Ctx: "/", Vars: []varBinding{lb, rb}}
		set, _, err := c.settings(p)
		if err != nil {
			return false, err
		}
		g, err := buildExpr(text)
		if err != nil {
			return false, err
		}
		r, err := safeExec(p.root, g, set...)
		if err != nil {
			return false, fmt.Errorf("Exec(%q): %v", text, err)
		}
		return r.Bool(), nil
	}
	a, err := run("$l " + op + " $r")
	if err != nil {
		return err
	}
	b, err := run("$r " + mirror[op] + " $l")
	if err != nil {
		return err
	}
	st.Eval(1)
	if a != b {
		return fmt.Errorf("$l %s $r is %v but $r %s $l is %v (l=%+v r=%+v)", op, a, mirror[op], b, lb, rb)
	}
	if op == "!=" && lb.T != "nodes" && rb.T != "nodes" {
		e, err := run("not($l = $r)")
		if err != nil {
			return err
		}
		if a != e {
			return fmt.Errorf("$l != $r is %v but not($l = $r) is %v for non-node-set operands (l=%+v r=%+v)", a, e, lb, rb)
		}
	}
	return nil
}
