package props

import (
	"bytes"
	"encoding/json"
	"encoding/xml"
	"fmt"
	"io"
	"os"
	"path/filepath"
	"strings"
	"testing"

	"golang.org/x/net/html/charset"

	"verif/xmodel"
)

// Semantic native fuzz targets for the byte-level properties (thorough tier).
// Each carries its oracle inside the target; a failure writes a replay file
// and prints a VIOLATION line through the failure message.

func fuzzViolation(t *testing.T, prop, kind, name string, c any, err error) {
	dir := filepath.Join(verifDir, "replays", prop)
	os.MkdirAll(dir, 0o755)
	recordFailure(prop, kind, c, err.Error())
	b, _ := os.ReadFile(pendingPath(kind))
	dst := filepath.Join(dir, "fuzz-"+name+".json")
	os.WriteFile(dst, b, 0o644)
	os.Remove(pendingPath(kind))
	t.Fatalf("VIOLATION property=%s replay=%s\n  detail: %v", prop, dst, firstLine(err.Error()))
}

// ---- C16: JSON ----

// jsonStreamToValues decodes the text with the harness's own token reader,
// keeping member order and duplicate keys.  ok=false: the text is not a
// sequence of valid JSON values.
func jsonStreamToValues(text []byte) (vals []*jval, ok bool) {
	dec := json.NewDecoder(bytes.NewReader(text))
	dec.UseNumber()
	errClean := fmt.Errorf("clean end of input")
	top := true
	var parse func() (*jval, error)
	parse = func() (*jval, error) {
		tok, err := dec.Token()
		if err == io.EOF && top {
			return nil, errClean
		}
		top = false
		if err != nil {
			return nil, err
		}
		switch v := tok.(type) {
		case json.Delim:
			switch v {
			case '{':
				o := &jval{K: "obj"}
				for dec.More() {
					kt, err := dec.Token()
					if err != nil {
						return nil, err
					}
					key, isStr := kt.(string)
					if !isStr {
						return nil, fmt.Errorf("non-string key")
					}
					m, err := parse()
					if err != nil {
						return nil, err
					}
					o.Keys = append(o.Keys, key)
					o.Members = append(o.Members, m)
				}
				if _, err := dec.Token(); err != nil {
					return nil, err
				}
				return o, nil
			case '[':
				a := &jval{K: "arr"}
				for dec.More() {
					m, err := parse()
					if err != nil {
						return nil, err
					}
					a.Items = append(a.Items, m)
				}
				if _, err := dec.Token(); err != nil {
					return nil, err
				}
				return a, nil
			}
			return nil, fmt.Errorf("unexpected delimiter")
		case string:
			return &jval{K: "str", S: v}, nil
		case json.Number:
			return &jval{K: "num", Num: string(v)}, nil
		case bool:
			if v {
				return &jval{K: "true"}, nil
			}
			return &jval{K: "false"}, nil
		case nil:
			return &jval{K: "null"}, nil
		}
		return nil, fmt.Errorf("unexpected token")
	}
	for {
		top = true
		v, err := parse()
		if err == errClean {
			return vals, true
		}
		if err != nil {
			return nil, false
		}
		vals = append(vals, v)
	}
}

func FuzzC16(f *testing.F) {
	for _, s := range []string{`{"a":[0,["b","c",{"d":2.7}]],"n":null}`, `[1,2`, `{"a":`, `"s" 1 true`, `{"":{"":[]}}`, `{"a":{},"b":[]}`, `[[],{},"x"]`, `1e999`, `{"a":1}}`, `{"a":1,"a":2}`, `[-0, 1E+2, 0.1]`} {
		f.Add([]byte(s))
	}
	f.Fuzz(func(t *testing.T, text []byte) {
		if len(text) > 1<<14 {
			return
		}
		vals, ok := jsonStreamToValues(text)
		if !ok {
			c := &c16BadCase{Text: string(text), How: "rejected by the harness's JSON reader"}
			if !json.Valid(text) {
				if err := checkC16Bad(c); err != nil {
					fuzzViolation(t, "C16", "c16-malformed", "FuzzC16", c, err)
				}
			}
			return
		}
		for _, v := range vals {
			if numOutOfRange(v) {
				return // the decoder without UseNumber rejects numerals beyond float64
			}
		}
		c := &c16Case{Values: vals, Text: string(text)}
		if err := checkC16(c); err != nil {
			fuzzViolation(t, "C16", "c16-map", "FuzzC16", c, err)
		}
	})
}

func numOutOfRange(v *jval) bool {
	if v.K == "num" {
		var f float64
		return json.Unmarshal([]byte(v.Num), &f) != nil
	}
	for _, m := range v.Members {
		if numOutOfRange(m) {
			return true
		}
	}
	for _, m := range v.Items {
		if numOutOfRange(m) {
			return true
		}
	}
	return false
}

// ---- C17: HTML ----

func FuzzC17(f *testing.F) {
	for _, s := range []string{"<p>x", "<table><tr><td>x<table>", "<svg xmlns:xlink=\"x\" xlink:href=y><foreignObject><p>", "<template><td>", "</html><!--c-->", "<select><option>a<p>", "<b><i></b></i>", "<math><mi>x</mi><annotation-xml encoding=\"text/html\"><p>"} {
		f.Add([]byte(s))
	}
	f.Fuzz(func(t *testing.T, body []byte) {
		if len(body) > 1<<13 {
			return
		}
		c := &c17Case{Text: "<!DOCTYPE html>" + string(body)}
		if err := checkC17(c); err != nil {
			fuzzViolation(t, "C17", "c17-tree", "FuzzC17", c, err)
		}
	})
}

// ---- C09: XML ----

// xmlBytesToEvents reads the bytes with the harness's own strict decoder (same
// charset reader as the adapter wraps) and builds the event list the data
// model requires.  err != nil: the decoder detected a syntax error.
func xmlBytesToEvents(b []byte) ([]xmodel.Event, error) {
	d := xml.NewDecoder(bytes.NewReader(b))
	d.CharsetReader = charset.NewReaderLabel
	var out []xmodel.Event
	depth := 0
	var text []byte
	flush := func() {
		if len(text) > 0 && !(depth == 0 && len(bytes.Trim(text, " \t\r\n")) == 0) {
			out = append(out, xmodel.Event{K: "T", Value: string(text)})
		}
		text = nil
	}
	for {
		tok, err := d.Token()
		if err == io.EOF {
			flush()
			return out, nil
		}
		if err != nil {
			return nil, err
		}
		if cd, ok := tok.(xml.CharData); ok {
			text = append(text, cd...)
			continue
		}
		flush()
		switch v := tok.(type) {
		case xml.StartElement:
			depth++
			out = append(out, xmodel.Event{K: "S", Space: v.Name.Space, Local: v.Name.Local})
			out = append(out, xmodel.Event{K: "N", Local: "xml", Value: xmodel.XMLNS})
			for _, a := range v.Attr {
				if a.Name.Space == "xmlns" {
					out = append(out, xmodel.Event{K: "N", Local: a.Name.Local, Value: a.Value})
				} else if a.Name.Local == "xmlns" {
					out = append(out, xmodel.Event{K: "N", Local: a.Name.Space, Value: a.Value})
				}
			}
			for _, a := range v.Attr {
				if a.Name.Space == "xmlns" || a.Name.Local == "xmlns" {
					continue
				}
				out = append(out, xmodel.Event{K: "A", Space: a.Name.Space, Local: a.Name.Local, Value: a.Value})
			}
		case xml.EndElement:
			depth--
			out = append(out, xmodel.Event{K: "E"})
		case xml.Comment:
			out = append(out, xmodel.Event{K: "C", Value: string(v)})
		case xml.ProcInst:
			if v.Target != "xml" {
				out = append(out, xmodel.Event{K: "P", Local: v.Target, Value: string(v.Inst)})
			}
		}
	}
}

func FuzzC09(f *testing.F) {
	for _, s := range []string{string(c15DocXML), "<a/>", "<?xml version=\"1.0\" encoding=\"ISO-8859-1\"?><a>\xe9</a>", "<a>x<![CDATA[y]]>z<![CDATA[]]></a>", "<a xmlns=\"u\" xmlns:p=\"v\"><b xmlns=\"\"/><p:c p:d=\"1\"/></a>", "<?xml version=\"1.0\"?>\n<!DOCTYPE a>\n<!--c--><a/>\n<?pi d?>\n", "<a>&#65;&amp;&lt;</a>", "<a", "<a></b>", "<a>&nope;</a>", "<a>\x01</a>"} {
		f.Add([]byte(s))
	}
	f.Fuzz(func(t *testing.T, b []byte) {
		if len(b) > 1<<14 {
			return
		}
		ev, derr := xmlBytesToEvents(b)
		if derr != nil {
			c := &c09BadCase{Bytes: b, How: "syntax error detected by encoding/xml: " + derr.Error()}
			if err := checkC09Bad(c); err != nil {
				fuzzViolation(t, "C09", "c09-malformed", "FuzzC09", c, err)
			}
			return
		}
		if !nestingBalanced(ev) || strings.Contains(string(b), "<!") && bytes.Contains(b, []byte("<!")) && hasDirectiveInsideElement(b) {
			return // not well-formed in ways encoding/xml does not check (end tag without start, directive inside content)
		}
		c := &c09Case{Events: ev, Bytes: b}
		if err := checkC09(c); err != nil {
			fuzzViolation(t, "C09", "c09-tree", "FuzzC09", c, err)
		}
	})
}

func nestingBalanced(ev []xmodel.Event) bool {
	d := 0
	for _, e := range ev {
		switch e.K {
		case "S":
			d++
		case "E":
			d--
			if d < 0 {
				return false
			}
		}
	}
	return d == 0
}

// hasDirectiveInsideElement: "<!x>" inside element content is reported by
// encoding/xml as a Directive; such documents are not well-formed and the
// property says nothing about them.
func hasDirectiveInsideElement(b []byte) bool {
	d := xml.NewDecoder(bytes.NewReader(b))
	d.CharsetReader = charset.NewReaderLabel
	depth := 0
	for {
		tok, err := d.Token()
		if err != nil {
			return false
		}
		switch tok.(type) {
		case xml.StartElement:
			depth++
		case xml.EndElement:
			depth--
		case xml.Directive:
			if depth > 0 {
				return true
			}
		}
	}
}

// ---- C08: expressions ----

func FuzzC08(f *testing.F) {
	for _, e := range hostileExprs {
		f.Add(e)
	}
	for _, e := range []string{"/r/a[last()]", "//node()[. = $n]", "count(//a) + sum(//b) div 2", "substring(//a, 1.5, 2.6)", "//*[lang('en')]", "/r/p:a | //@*", "8 div 2 div 2", "7 - 2 - 1", "1 = 1 = 1",
		"a -1", "a - 1", "* * *", "*[* * 2 > 1]", "child::child/self::self", "(//a)[1]/..", "$v/a//b", "- - 1", "1 or 2 and 0", "-(1 + 2) * 3 mod 2", "//a[position() = last()][1]", "string(/)"} {
		f.Add(e)
	}
	f.Fuzz(func(t *testing.T, expr string) {
		if len(expr) > 256 {
			return
		}
		c := &c08TextCase{Text: expr}
		if err := checkC08Sandwich(c); err != nil {
			fuzzViolation(t, "C08", "c08-sandwich", "FuzzC08", c, err)
		}
	})
}
