package props

import (
	"fmt"
	"strings"
	"testing"

	"github.com/ChrisTrenkamp/xsel"
	"pgregory.net/rapid"

	"verif/xast"
	"verif/xmodel"
	"verif/xref"
)

// C18 - sub-queries from any node compose like steps inside one query.

var c18Rel = reg("C18", "c18-rel", checkEvalCase)
var c18Comp = reg("C18", "c18-compose", checkC18Compose)

// Unmarshal evaluates field tags as sub-queries from the struct's node: the
// same oracle as C19 (field = the tag's result from that node, position 1,
// size 1), driven with context-dependent tags on slice elements.
var c18Unmarshal = reg("C18", "c18-unmarshal-subquery", checkC19)

type c18Case struct {
	Events []xmodel.Event    `json:"events"`
	NS     map[string]string `json:"ns,omitempty"`
	P      *xast.Expr        `json:"p"` // absolute path from the root
	R      *xast.Expr        `json:"r"` // relative path
	Fn     string            `json:"fn,omitempty"`
	Abbrev bool              `json:"abbrev,omitempty"` // written with every abbreviation ('//', '@', '..', no 'child::')
}

func leavesSubtree(x *xast.Expr) bool {
	out := false
	xast.WalkSteps(x, func(s *xast.Step) {
		switch s.Axis {
		case "parent", "ancestor", "ancestor-or-self", "following", "preceding", "following-sibling", "preceding-sibling":
			out = true
		}
	})
	return out
}

func TestC18(t *testing.T) {
	runWitnesses(t, "C18")
	// (i) Exec(n, R) = reference with context node n, position 1, size 1
	runProp(t, "relative", 75000, 1000000, func(t *rapid.T) {
		c, p := genDocCase(t, caseOpts{cfg: docCfg(), anyCtx: true, vars: true},
			func(g *xast.G, p *prepared) *xast.Expr {
				g.Env.NoAbs = true
				switch rapid.IntRange(0, 7).Draw(g.T, "relKind") {
				case 0:
					return xast.Call([]string{"position", "last"}[rapid.IntRange(0, 1).Draw(g.T, "posFn")])
				case 1:
					return xast.Bin("=", xast.Call("position"), xast.Call("last"))
				case 2:
					return xast.Call([]string{"string", "name", "local-name", "string-length", "normalize-space", "number"}[rapid.IntRange(0, 5).Draw(g.T, "ctxFn")])
				case 3:
					return g.Any(2)
				}
				return g.NodeSet(2, true)
			}, drawStyle(t))
		if c == nil {
			return
		}
		out, why, err := evalPrepared(c, p)
		if out == discarded {
			st.Discard(why)
			return
		}
		st.Eval(1)
		ctx := p.doc.Resolve(c.Ctx)
		st.Class("start=" + ctx.Kind.String())
		if ctx.Kind != xmodel.Elem || leavesSubtree(c.Expr) {
			key := ctx.Kind.String() + "|" + c.Text + "|" + shapeKey(ctx)
			st.NonTrivial(key)
			if len(c.Events) <= 24 {
				st.Sample(key, map[string]any{"events": eventStrings(c.Events), "start": c.Ctx + " " + ctx.Describe(), "expr": c.Text, "expected": lastRef.Describe()})
			}
		}
		if err != nil {
			recordFailure("C18", "c18-rel", c, err.Error())
			t.Fatalf("C18/relative: %v", err)
		}
	})
	runProp(t, "unmarshal-subquery", 3000, 100000, func(t *rapid.T) {
		ev := addNAttrs(t, xmodel.Gen(t, c19Doc()))
		tags := []string{"position()", "last()", "position() = last()", "name()", "name(..)", "count(following-sibling::*)", "count(preceding::*)", "string(..)", "count(ancestor::*)", ".", "following::*[1]", "@n"}
		elem := &tdesc{Kind: "struct"}
		for i, n := 0, rapid.IntRange(1, 4).Draw(t, "nFields"); i < n; i++ {
			tag := tags[rapid.IntRange(0, len(tags)-1).Draw(t, "tag")]
			kind := "string"
			if strings.HasPrefix(tag, "position()") && !strings.Contains(tag, "=") || tag == "last()" || strings.HasPrefix(tag, "count(") {
				kind = []string{"int", "string", "float64", "uint8"}[rapid.IntRange(0, 3).Draw(t, "numKind")]
			}
			if strings.Contains(tag, "=") {
				kind = "bool"
			}
			elem.Fields = append(elem.Fields, fdesc{Name: fmt.Sprintf("F%d", i), Tag: tag, T: &tdesc{Kind: kind}})
		}
		if rapid.Bool().Draw(t, "nested") {
			inner := &tdesc{Kind: "struct", Fields: []fdesc{{Name: "P", Tag: "position()", T: &tdesc{Kind: "int"}}, {Name: "L", Tag: "last()", T: &tdesc{Kind: "int"}}, {Name: "N", Tag: "name()", T: &tdesc{Kind: "string"}}}}
			elem.Fields = append(elem.Fields, fdesc{Name: "In", Tag: pick(t, "innerTag", []string{".", "..", "*[1]"}), T: inner})
		}
		c := &c19Case{Events: ev, Select: pick(t, "select", []string{"//a", "//*", "/*/*", "//b", "//a/.."}), Target: &tdesc{Kind: "slice", Elem: elem}}
		if rapid.Bool().Draw(t, "ptrElems") {
			c.Target.Elem = &tdesc{Kind: "ptr", Elem: elem}
		}
		st.Class("unmarshal-subquery")
		shape, _ := shapeOf(c.Target)
		st.NonTrivial("unmarshal|" + shape + c.Select + fmt.Sprint(len(ev)))
		if len(ev) <= 20 {
			st.Sample("unmarshal|"+shape, map[string]any{"select": c.Select, "target": shape})
		}
		c18Unmarshal.run(t, c)
	})
	// (ii) composition and (iii) P/f() = f(P), on the implementation alone
	runProp(t, "compose", 18000, 300000, func(t *rapid.T) {
		ev := xmodel.Gen(t, c02DocCfg())
		p, err := prepareDoc(ev)
		if err != nil {
			st.Discard("document-not-mirrored")
			return
		}
		ns := genBindings(t)
		elems, attrs, targets := docNames(p.doc)
		g := &xast.G{T: t, Env: xast.GenEnv{ElemNames: queryable(elems), AttrNames: queryable(attrs), PITargets: targets, Prefixes: prefixesOf(ns), NoAbs: true, NumVars: []string{"k1", "k2"}}}
		P := g.RelPath(1, 3)
		P.Abs = true
		P.Steps[0].DS = rapid.Bool().Draw(t, "pDS")
		R := g.RelPath(2, 3)
		if rapid.IntRange(0, 3).Draw(t, "rDS") == 0 {
			// the split falls on a '//': P//R, and R alone is './/...'
			R.Steps[0].DS = true
		}
		c := &c18Case{Events: ev, NS: ns, P: P, R: R, Abbrev: rapid.Bool().Draw(t, "abbrev")}
		if rapid.IntRange(0, 2).Draw(t, "fnCase") == 0 {
			c.Fn = []string{"string", "number", "name", "local-name", "namespace-uri", "string-length", "normalize-space"}[rapid.IntRange(0, 6).Draw(t, "fn")]
		}
		c18Comp.run(t, c)
	})
}

func checkC18Compose(c *c18Case) error {
	p, err := prepareDoc(c.Events)
	if err != nil {
		st.Discard("document-not-mirrored")
		return nil
	}
	var set []xsel.ContextApply
	for k, v := range c.NS {
		set = append(set, xsel.WithNS(k, v))
	}
	// $k1 = 1 and $k2 = 2 are bound in every query of the case (numeric predicates that show no digit)
	env := &xref.Env{Doc: p.doc, NS: c.NS, Vars: map[xref.Name]xref.Value{{Local: "k1"}: xref.Number(1), {Local: "k2"}: xref.Number(2)}}
	set = append(set, xsel.WithVariable("k1", xsel.Number(1)), xsel.WithVariable("k2", xsel.Number(2)))
	render := xast.RenderMinimal
	if c.Abbrev {
		render = func(x *xast.Expr) string { return xast.Render(x, xast.Abbrev, xast.Style{Abbrev: true}) }
	}
	pText := render(c.P)
	if _, err := env.Eval(c.P, xref.Ctx{Node: p.doc.Root, Pos: 1, Size: 1}); err == xref.ErrOutOfScope {
		st.Discard("out-of-scope")
		return nil
	}
	gp, err := buildExpr(pText)
	if err != nil {
		return fmt.Errorf("BuildExpr(%q): %v", pText, firstLine(err.Error()))
	}
	pr, err := safeExec(p.root, gp, set...)
	if err != nil {
		return fmt.Errorf("Exec(%q): %v", pText, err)
	}
	pNodes, ok := pr.(xsel.NodeSet)
	if !ok {
		return fmt.Errorf("Exec(%q): not a node-set", pText)
	}
	if c.Fn != "" {
		// P/f() equals f(P)
		a := &xast.Expr{K: "path", Abs: true, Steps: append(append([]*xast.Step{}, c.P.Steps...), &xast.Step{Call: xast.Call(c.Fn)})}
		b := xast.Call(c.Fn, c.P)
		at, bt := render(a), render(b)
		ga, err := buildExpr(at)
		if err != nil {
			return fmt.Errorf("BuildExpr(%q): %v", at, firstLine(err.Error()))
		}
		gb, err := buildExpr(bt)
		if err != nil {
			return fmt.Errorf("BuildExpr(%q): %v", bt, firstLine(err.Error()))
		}
		ra, ea := safeExec(p.root, ga, set...)
		rb, eb := safeExec(p.root, gb, set...)
		st.Eval(1)
		if (ea != nil) != (eb != nil) {
			return fmt.Errorf("%s gives error %v but %s gives error %v", at, ea, bt, eb)
		}
		if ea == nil && (ra.String() != rb.String() || fmt.Sprintf("%T", ra) != fmt.Sprintf("%T", rb)) {
			return fmt.Errorf("%s = %T(%q) but %s = %T(%q)", at, ra, ra.String(), bt, rb, rb.String())
		}
		if len(pNodes) >= 2 {
			st.NonTrivial("fn|" + at + fmt.Sprint(c.Events))
			if len(c.Events) <= 24 {
				st.Sample("fn|"+at, map[string]any{"events": eventStrings(c.Events), "P/f()": at, "f(P)": bt, "value": ra.String()})
			}
		}
		return nil
	}
	// Exec(root, P/R) = union over n in Exec(root, P) of Exec(n, R)
	full := &xast.Expr{K: "path", Abs: true, Steps: append(append([]*xast.Step{}, c.P.Steps...), c.R.Steps...)}
	if _, err := env.Eval(full, xref.Ctx{Node: p.doc.Root, Pos: 1, Size: 1}); err == xref.ErrOutOfScope {
		st.Discard("out-of-scope")
		return nil
	}
	fText, rText := render(full), render(c.R)
	gf, err := buildExpr(fText)
	if err != nil {
		return fmt.Errorf("BuildExpr(%q): %v", fText, firstLine(err.Error()))
	}
	gr, err := buildExpr(rText)
	if err != nil {
		return fmt.Errorf("BuildExpr(%q): %v", rText, firstLine(err.Error()))
	}
	fr, err := safeExec(p.root, gf, set...)
	if err != nil {
		return fmt.Errorf("Exec(%q): %v", fText, err)
	}
	fNodes, ok := fr.(xsel.NodeSet)
	if !ok {
		return fmt.Errorf("Exec(%q): not a node-set", fText)
	}
	union := map[*xmodel.Node]bool{}
	for _, n := range pNodes {
		rr, err := safeExec(n, gr, set...)
		if err != nil {
			return fmt.Errorf("Exec(%s, %q): %v", p.loc.ToNode[n].Ref(), rText, err)
		}
		rn, ok := rr.(xsel.NodeSet)
		if !ok {
			return fmt.Errorf("Exec(%s, %q): not a node-set", p.loc.ToNode[n].Ref(), rText)
		}
		st.Eval(1)
		for _, x := range rn {
			m, ok := p.loc.ToNode[x]
			if !ok {
				return fmt.Errorf("Exec(%s, %q) returned a node outside the document", p.loc.ToNode[n].Ref(), rText)
			}
			union[m] = true
		}
	}
	got := map[*xmodel.Node]bool{}
	for _, x := range fNodes {
		got[p.loc.ToNode[x]] = true
	}
	for m := range union {
		if !got[m] {
			return fmt.Errorf("%s from the root misses %s, which %q selects from a node selected by %s; got %v", fText, m.Ref(), rText, pText, refsOfCursors(fNodes, p.loc))
		}
	}
	for m := range got {
		if !union[m] {
			return fmt.Errorf("%s from the root selects %s, which %q selects from no node selected by %s (%v)", fText, m.Ref(), rText, pText, refsOfCursors(pNodes, p.loc))
		}
	}
	positional := false
	xast.WalkSteps(c.R, func(s *xast.Step) {
		if len(s.Preds) > 0 {
			positional = true
		}
	})
	if len(pNodes) >= 2 && positional {
		key := fText + fmt.Sprint(c.Events)
		st.NonTrivial(key)
		if len(c.Events) <= 24 {
			st.Sample(key, map[string]any{"events": eventStrings(c.Events), "P": pText, "R": rText, "P/R": refsOfCursors(fNodes, p.loc)})
		}
	}
	return nil
}
