package props

import (
	"github.com/ChrisTrenkamp/xsel"
	"github.com/ChrisTrenkamp/xsel/node"
	"github.com/ChrisTrenkamp/xsel/store"
)

// User-written cursors.  Exec takes any store.Cursor; these two are views of
// a store tree that obey the documented contract (Pos unique and ordered,
// root at 0) and nothing more:
//
//   viewCursor  builds its relatives on demand: every call to Parent,
//               Children, Attributes or Namespaces returns fresh objects, so
//               two cursors for one node are different pointers;
//   valCursor   is a value type with a slice field: it cannot be compared
//               with == or used as a map key (either panics at run time).

type viewCursor struct{ in store.Cursor }

func (v *viewCursor) Pos() int        { return v.in.Pos() }
func (v *viewCursor) Node() node.Node { return v.in.Node() }
func (v *viewCursor) Parent() store.Cursor {
	if p := v.in.Parent(); p != nil {
		return &viewCursor{p}
	}
	return nil
}
func (v *viewCursor) wrap(cs []store.Cursor) []store.Cursor {
	out := make([]store.Cursor, len(cs))
	for i, c := range cs {
		out[i] = &viewCursor{c}
	}
	return out
}
func (v *viewCursor) Namespaces() []store.Cursor { return v.wrap(v.in.Namespaces()) }
func (v *viewCursor) Attributes() []store.Cursor { return v.wrap(v.in.Attributes()) }
func (v *viewCursor) Children() []store.Cursor   { return v.wrap(v.in.Children()) }

type valCursor struct {
	in  store.Cursor
	pad []int
}

func (v valCursor) Pos() int        { return v.in.Pos() }
func (v valCursor) Node() node.Node { return v.in.Node() }
func (v valCursor) Parent() store.Cursor {
	if p := v.in.Parent(); p != nil {
		return valCursor{in: p}
	}
	return nil
}
func (v valCursor) wrap(cs []store.Cursor) []store.Cursor {
	out := make([]store.Cursor, len(cs))
	for i, c := range cs {
		out[i] = valCursor{in: c}
	}
	return out
}
func (v valCursor) Namespaces() []store.Cursor { return v.wrap(v.in.Namespaces()) }
func (v valCursor) Attributes() []store.Cursor { return v.wrap(v.in.Attributes()) }
func (v valCursor) Children() []store.Cursor   { return v.wrap(v.in.Children()) }

// bigCursor is a view whose positions are spread far beyond 32 bits (the
// contract asks for unique, ordered ints with the root at 0 - nothing about
// their size).
type bigCursor struct{ in store.Cursor }

func (v *bigCursor) Pos() int        { return v.in.Pos() * (1<<31 + 12345) }
func (v *bigCursor) Node() node.Node { return v.in.Node() }
func (v *bigCursor) Parent() store.Cursor {
	if p := v.in.Parent(); p != nil {
		return &bigCursor{p}
	}
	return nil
}
func (v *bigCursor) wrap(cs []store.Cursor) []store.Cursor {
	out := make([]store.Cursor, len(cs))
	for i, c := range cs {
		out[i] = &bigCursor{c}
	}
	return out
}
func (v *bigCursor) Namespaces() []store.Cursor { return v.wrap(v.in.Namespaces()) }
func (v *bigCursor) Attributes() []store.Cursor { return v.wrap(v.in.Attributes()) }
func (v *bigCursor) Children() []store.Cursor   { return v.wrap(v.in.Children()) }

// viewOf wraps a store cursor in one of the user-written views.
func viewOf(c store.Cursor, kind int) store.Cursor {
	switch kind % 3 {
	case 0:
		return &viewCursor{c}
	case 1:
		return valCursor{in: c}
	}
	return &bigCursor{c}
}

// unview returns the store cursor behind a view (or c itself).
func unview(c store.Cursor) store.Cursor {
	for {
		switch v := c.(type) {
		case *viewCursor:
			c = v.in
		case valCursor:
			c = v.in
		case *bigCursor:
			c = v.in
		default:
			return c
		}
	}
}

// unviewResult maps a node-set of views back to the store's cursors.
func unviewResult(r xsel.Result) xsel.Result {
	ns, ok := r.(xsel.NodeSet)
	if !ok {
		return r
	}
	out := make(xsel.NodeSet, len(ns))
	for i, c := range ns {
		out[i] = unview(c)
	}
	return out
}
