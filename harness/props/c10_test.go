package props

import (
	"errors"
	"fmt"
	"testing"

	"github.com/ChrisTrenkamp/xsel/store"
	"pgregory.net/rapid"

	"verif/xmodel"
)

// C10 - the in-memory store honours the Cursor contract for any conforming
// Parser stream.

type c10Case struct {
	Events []xmodel.Event `json:"events"`
}

var c10Stream = reg("C10", "c10-stream", checkC10Stream)

func hasX(ev []xmodel.Event) bool {
	for _, e := range ev {
		if e.K == "X" {
			return true
		}
	}
	return false
}

func checkC10Stream(c *c10Case) error {
	model := xmodel.Build(c.Events)
	cur, err := xmodel.BuildStore(c.Events)
	if hasX(c.Events) {
		if err == nil {
			return fmt.Errorf("the Parser returned an error but CreateInMemory returned nil error")
		}
		if !errors.Is(err, xmodel.ErrScripted) {
			return fmt.Errorf("the Parser's error did not surface: got %v", err)
		}
		return nil
	}
	if err != nil {
		return fmt.Errorf("CreateInMemory failed on a conforming stream: %v", err)
	}
	if cur == nil {
		return fmt.Errorf("CreateInMemory returned a nil cursor and a nil error")
	}
	if _, err := xmodel.Locate(model, cur); err != nil {
		return fmt.Errorf("tree does not mirror the stream: %v", err)
	}
	return cursorContract(cur)
}

// cursorContract checks Pos()/Parent() over a full traversal.
func cursorContract(root store.Cursor) error {
	if root.Pos() != 0 {
		return fmt.Errorf("root Pos() = %d, want 0", root.Pos())
	}
	last := -1
	var lastDesc string
	var walk func(c store.Cursor, path string) error
	visit := func(c store.Cursor, path string) error {
		p := c.Pos()
		if p <= last {
			return fmt.Errorf("Pos() not strictly increasing in document order: %s (%s) has Pos %d after %s with Pos %d", path, xmodel.DescribeCursor(c), p, lastDesc, last)
		}
		last, lastDesc = p, path+" ("+xmodel.DescribeCursor(c)+")"
		return nil
	}
	walk = func(c store.Cursor, path string) error {
		if err := visit(c, path); err != nil {
			return err
		}
		for i, n := range c.Namespaces() {
			if n.Parent() != c {
				return fmt.Errorf("%s/ns%d (%s): Parent() is not the element that lists it", path, i, xmodel.DescribeCursor(n))
			}
			if err := visit(n, fmt.Sprintf("%s/ns%d", path, i)); err != nil {
				return err
			}
		}
		for i, n := range c.Attributes() {
			if n.Parent() != c {
				return fmt.Errorf("%s/@%d (%s): Parent() is not the element that lists it", path, i, xmodel.DescribeCursor(n))
			}
			if err := visit(n, fmt.Sprintf("%s/@%d", path, i)); err != nil {
				return err
			}
		}
		for i, n := range c.Children() {
			if n.Parent() != c {
				return fmt.Errorf("%s/%d (%s): Parent() is not the node that lists it", path, i, xmodel.DescribeCursor(n))
			}
			if err := walk(n, fmt.Sprintf("%s/%d", path, i)); err != nil {
				return err
			}
		}
		return nil
	}
	return walk(root, "")
}

// genStream draws a contract-conforming event stream: a generated document,
// optionally with surplus top-level end events, same-element prefix
// rebinding, and a parser error at a drawn position.
func genStream(t *rapid.T) []xmodel.Event {
	ev := xmodel.Gen(t, xmodel.GenCfg{MaxDepth: 5, MaxKids: 4, MaxTop: 2, Forest: true, Wide: true, Undeclare: true, AllowBig: thorough(), Stress: true,
		XMLEverywhere: rapid.Bool().Draw(t, "xmlEverywhere")})
	if rapid.IntRange(0, 3).Draw(t, "surplusEnds") == 0 {
		// insert surplus end events where the depth is zero
		var out []xmodel.Event
		depth := 0
		for _, e := range ev {
			if depth == 0 && rapid.IntRange(0, 2).Draw(t, "surplusHere") == 0 {
				out = append(out, xmodel.Event{K: "E"})
			}
			out = append(out, e)
			switch e.K {
			case "S":
				depth++
			case "E":
				depth--
			}
		}
		if rapid.Bool().Draw(t, "surplusAtEnd") {
			out = append(out, xmodel.Event{K: "E"})
		}
		ev = out
	}
	if len(ev) > 0 && rapid.IntRange(0, 7).Draw(t, "parserError") == 0 {
		at := rapid.IntRange(0, len(ev)).Draw(t, "errorAt")
		ev = append(append(append([]xmodel.Event{}, ev[:at]...), xmodel.Event{K: "X"}), ev[at:]...)
	}
	return ev
}

func c10Features(ev []xmodel.Event) (depth int, override, surplus, perr bool) {
	type frame map[string]string
	var stack []frame
	d := 0
	for _, e := range ev {
		switch e.K {
		case "X":
			perr = true
			return
		case "S":
			d++
			if d > depth {
				depth = d
			}
			stack = append(stack, frame{})
		case "E":
			if d == 0 {
				surplus = true
			} else {
				d--
				stack = stack[:len(stack)-1]
			}
		case "N":
			for i := 0; i < len(stack)-1; i++ {
				if v, ok := stack[i][e.Local]; ok && v != e.Value {
					override = true
				}
			}
			if len(stack) > 0 {
				stack[len(stack)-1][e.Local] = e.Value
			}
		}
	}
	return
}

func TestC10(t *testing.T) {
	runWitnesses(t, "C10")
	runC10Stack(t)
	runProp(t, "stream", 160000, 1000000, func(t *rapid.T) {
		c := &c10Case{Events: genStream(t)}
		depth, override, surplus, perr := c10Features(c.Events)
		st.Eval(1)
		st.Class(fmt.Sprintf("depth=%d", depth))
		if override {
			st.Class("inherited-prefix-overridden")
		}
		if surplus {
			st.Class("surplus-end")
		}
		if perr {
			st.Class("parser-error")
		}
		if override || surplus || depth >= 3 {
			key := fmt.Sprint(c.Events)
			st.NonTrivial(key)
			st.Sample(key, map[string]any{"events": eventStrings(c.Events)})
		}
		c10Stream.run(t, c)
	})
}

func eventStrings(ev []xmodel.Event) []string {
	out := make([]string, len(ev))
	for i, e := range ev {
		out[i] = e.String()
	}
	return out
}
