package props

import (
	"sort"

	"pgregory.net/rapid"

	"verif/xast"
	"verif/xmodel"
	"verif/xref"
)

// Guided walks: location paths drawn step by step, where each step is the
// first of a few drawn candidates that the reference evaluator says selects
// something from the node-set reached so far.  Unguided random paths die out
// after an attribute or namespace step (nothing but parent/ancestor/self/
// following/preceding continues from there); guided ones routinely reach
// shapes like @k/../b, (//a | //a/@k)/descendant-or-self::node() or
// namespace::*/parent::*/text().  Every choice is a rapid draw.

func extendPath(cur *xast.Expr, s *xast.Step) *xast.Expr {
	nx := *cur
	nx.Steps = append(append([]*xast.Step{}, cur.Steps...), s)
	return &nx
}

// walkStart draws where a walk starts: the root ('/' or '//'), the context
// node, a mixed-kind node-set variable $w in document order, or the union of
// two shorter walks in parentheses.
func walkStart(t *rapid.T, g *xast.G, env *xref.Env, ctx *xmodel.Node, abs bool, depth int) *xast.Expr {
	k := rapid.IntRange(0, 5).Draw(t, "walkStart")
	switch {
	case k == 0 && abs:
		return &xast.Expr{K: "path", Abs: true}
	case k == 1 && len(g.Env.NodeVars) > 0:
		return xast.Filter(xast.Var(g.Env.NodeVars[rapid.IntRange(0, len(g.Env.NodeVars)-1).Draw(t, "walkVar")]), nil)
	case k == 2 && depth > 0:
		a := genWalkFrom(t, g, env, ctx, walkStart(t, g, env, ctx, abs, 0), 2, 0)
		b := genWalkFrom(t, g, env, ctx, walkStart(t, g, env, ctx, abs, 0), 2, 0)
		return xast.Filter(xast.Union(a, b), nil)
	}
	return &xast.Expr{K: "path"}
}

// genWalkFrom extends start by 1..maxSteps guided steps.
func genWalkFrom(t *rapid.T, g *xast.G, env *xref.Env, ctx *xmodel.Node, start *xast.Expr, maxSteps, maxPreds int) *xast.Expr {
	cur := start
	n := rapid.IntRange(1, maxSteps).Draw(t, "walkSteps")
	for i := 0; i < n; i++ {
		var chosen *xast.Step
		for k := 0; k < 5; k++ {
			depth := 0
			if maxPreds > 0 {
				depth = 1
			}
			s := g.Step(depth, maxPreds)
			if k == 0 && len(cur.Steps) > 0 && rapid.Bool().Draw(t, "walkBack") {
				if ax := cur.Steps[len(cur.Steps)-1].Axis; ax == "attribute" || ax == "namespace" {
					// back from the attribute or namespace node to its element: @k/.., namespace::*/..
					s = &xast.Step{Axis: "parent", Test: xast.NodeT()}
				}
			}
			if rapid.IntRange(0, 5).Draw(t, "walkDS") == 0 {
				s.DS = true
			}
			if chosen == nil {
				chosen = s
			}
			v, err := env.Eval(extendPath(cur, s), xref.Ctx{Node: ctx, Pos: 1, Size: 1})
			if err == nil && len(v.Nodes) > 0 {
				chosen = s
				break
			}
		}
		cur = extendPath(cur, chosen)
	}
	return cur
}

func genWalk(t *rapid.T, g *xast.G, env *xref.Env, ctx *xmodel.Node, abs bool, maxSteps, maxPreds int) *xast.Expr {
	return genWalkFrom(t, g, env, ctx, walkStart(t, g, env, ctx, abs, 1), maxSteps, maxPreds)
}

// mixedNodeVar draws a node-set of 2..6 nodes of every kind (attributes and
// namespace nodes next to their elements included), in document order.
func mixedNodeVar(t *rapid.T, d *xmodel.Doc, name string) varBinding {
	n := rapid.IntRange(2, 6).Draw(t, "mixedSize")
	idx := map[int]bool{}
	for i := 0; i < n; i++ {
		k := rapid.IntRange(0, len(d.All)-1).Draw(t, "mixedNode")
		idx[k] = true
		// an attribute or namespace node of the node just drawn, or of one of its descendants
		if m := d.All[k]; m.Kind == xmodel.Elem && rapid.Bool().Draw(t, "mixedOwn") {
			var own []int
			for j := k + 1; j < len(d.All); j++ {
				o := d.All[j]
				if (o.Kind == xmodel.Attr || o.Kind == xmodel.NS) && isAncestorOrSelf(m, o.Parent) {
					own = append(own, j)
				}
			}
			if len(own) > 0 {
				idx[own[rapid.IntRange(0, len(own)-1).Draw(t, "mixedOwnIdx")]] = true
			}
		}
	}
	var order []int
	for k := range idx {
		order = append(order, k)
	}
	sort.Ints(order)
	b := varBinding{Local: name, T: "nodes"}
	for _, k := range order {
		b.Nodes = append(b.Nodes, d.All[k].Ref())
	}
	return b
}

func isAncestorOrSelf(a, n *xmodel.Node) bool {
	for ; n != nil; n = n.Parent {
		if n == a {
			return true
		}
	}
	return false
}
