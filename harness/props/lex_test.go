package props

import (
	"unicode"
)

// lexTokens splits expression text into coarse tokens (literals, numbers,
// name-ish runs, '*', operators, punctuation).  It is only used to recognise
// the syntactic feature of known finding C08-slash-star-ambiguity.
func lexTokens(text string) []string {
	rs := []rune(text)
	var out []string
	nameish := func(r rune) bool {
		return unicode.IsLetter(r) || unicode.IsDigit(r) || r == '_' || r == '-' || r == '.' || r == '#' || r == '$' || r == ':' || r >= 0x80 && !unicode.IsSpace(r)
	}
	for i := 0; i < len(rs); {
		r := rs[i]
		switch {
		case unicode.IsSpace(r):
			i++
		case r == '\'' || r == '"':
			j := i + 1
			for j < len(rs) && rs[j] != r {
				j++
			}
			if j < len(rs) {
				j++
			}
			out = append(out, string(rs[i:j]))
			i = j
		case r == '/' && i+1 < len(rs) && rs[i+1] == '/':
			out = append(out, "//")
			i += 2
		case (r == '!' || r == '<' || r == '>') && i+1 < len(rs) && rs[i+1] == '=':
			out = append(out, string(rs[i:i+2]))
			i += 2
		case r == '-':
			out = append(out, "-")
			i++
		case unicode.IsDigit(r) || r == '.' && i+1 < len(rs) && unicode.IsDigit(rs[i+1]):
			// a number: digits and dots only ('0-' is a number and a minus sign)
			j := i
			for j < len(rs) && (unicode.IsDigit(rs[j]) || rs[j] == '.') {
				j++
			}
			out = append(out, string(rs[i:j]))
			i = j
		case nameish(r):
			j := i
			for j < len(rs) && nameish(rs[j]) {
				j++
			}
			// a trailing "::" belongs to the axis separator
			s := string(rs[i:j])
			out = append(out, s)
			i = j
		default:
			out = append(out, string(r))
			i++
		}
	}
	return out
}

// slashStarAmbiguous: does the text contain an absolute path that starts
// "/*" and continues with "/", "//" or "-"?  For those the generated GLL
// parser also offers the reading "(/) * (operand)" - XPath 1.0 section 3.7
// forbids it - and the evaluator may pick it.
func slashStarAmbiguous(text string) bool {
	toks := lexTokens(text)
	operandEnd := func(t string) bool {
		switch t {
		case ")", "]":
			return true
		case "and", "or", "div", "mod", "*", "-":
			return false
		}
		r := []rune(t)[0]
		return r == '\'' || r == '"' || unicode.IsLetter(r) || unicode.IsDigit(r) || r == '.' || r == '_' || r == '#' || r == '$' || r >= 0x80
	}
	for i := 0; i+2 < len(toks); i++ {
		if toks[i] == "/" && toks[i+1] == "*" && (toks[i+2] == "/" || toks[i+2] == "//" || toks[i+2] == "-") {
			if i == 0 || !operandEnd(toks[i-1]) {
				return true
			}
		}
	}
	return false
}
