package props

import (
	"fmt"
	"math"
	"strings"
	"testing"
	"unicode/utf8"

	"pgregory.net/rapid"

	"verif/xast"
	"verif/xmodel"
	"verif/xref"
)

// C07 - string functions operate on Unicode characters.

var c07Str = reg("C07", "c07-str", checkC07)

var uniRunes = []rune("ab12 \t\n\r é€𝄞́日 -.x")

func genUni(t *rapid.T, label string) string {
	switch rapid.IntRange(0, 8).Draw(t, label+"Kind") {
	case 8:
		return longString(t, label)
	case 0, 4:
		return strPool[rapid.IntRange(0, len(strPool)-1).Draw(t, label+"Idx")]
	case 1, 5:
		return rapid.String().Draw(t, label)
	}
	return rapid.StringOfN(rapid.SampledFrom(uniRunes), 0, 10, -1).Draw(t, label)
}

var boundPool = []float64{0, math.Copysign(0, -1), 1, 2, 3, 4, 5, -1, -5, 0.5, 1.5, 2.5, 2.4, 2.6, -0.5, -42, math.NaN(), math.Inf(1), math.Inf(-1), 1e10, -1e10, 9.3e18, 1.4999999999999998,
	0.49999999999999994, -0.49999999999999994, 4503599627370497, 4503599627370495.5, 2.5000000000000004, 0.5000000000000001}

func genBound(t *rapid.T, label string) float64 {
	if rapid.IntRange(0, 4).Draw(t, label+"Pool") != 0 {
		return boundPool[rapid.IntRange(0, len(boundPool)-1).Draw(t, label+"Idx")]
	}
	return rapid.Float64Range(-12, 12).Draw(t, label)
}

func multibyte(s string) bool { return len(s) != utf8.RuneCountInString(s) }

// checkC07: differential, plus the results are valid UTF-8 and no argument
// values make the functions fail.
func checkC07(c *evalCase) error {
	p, err := prepareDoc(c.Events)
	if err != nil {
		return err
	}
	_, _, err = evalPrepared(c, p)
	if err != nil {
		return err
	}
	if lastRefErr != nil {
		return fmt.Errorf("harness: reference failed on a string function: %v", lastRefErr)
	}
	// identities on the implementation alone
	if c.Expr.K == "call" && len(c.Expr.A) >= 2 && (c.Expr.S == "substring-before" || c.Expr.S == "contains" || c.Expr.S == "substring-after") {
		set, _, _ := c.settings(p)
		s, t2 := xast.RenderMinimal(c.Expr.A[0]), xast.RenderMinimal(c.Expr.A[1])
		id := fmt.Sprintf("not(contains(%s, %s)) or concat(substring-before(%s, %s), %s, substring-after(%s, %s)) = %s", s, t2, s, t2, t2, s, t2, s)
		g, err := buildExpr(id)
		if err != nil {
			return fmt.Errorf("BuildExpr(%q): %v", id, firstLine(err.Error()))
		}
		r, err := safeExec(p.root, g, set...)
		if err != nil || !r.Bool() {
			return fmt.Errorf("identity concat(substring-before(s,t), t, substring-after(s,t)) = s fails: %s -> %v %v", id, r, err)
		}
	}
	return nil
}

func TestC07(t *testing.T) {
	runWitnesses(t, "C07")
	runProp(t, "functions", 360000, 6000000, func(t *rapid.T) {
		s, u, w := genUni(t, "s"), genUni(t, "u"), genUni(t, "w")
		a, b := genBound(t, "p"), genBound(t, "l")
		c := &evalCase{Events: []xmodel.Event{{K: "S", Local: "r"}, {K: "T", Value: s}, {K: "E"}}, Ctx: "/",
			Vars: []varBinding{{Local: "s", T: "str", Str: s}, {Local: "u", T: "str", Str: u}, {Local: "w", T: "str", Str: w},
				{Local: "p", T: "num", Num: fmtFloat(a)}, {Local: "l", T: "num", Num: fmtFloat(b)}}}
		S, U, W, P, L := xast.Var("s"), xast.Var("u"), xast.Var("w"), xast.Var("p"), xast.Var("l")
		fns := []string{"substring3", "substring2", "string-length", "normalize-space", "translate", "concat", "starts-with", "contains", "substring-before", "substring-after", "string-length0", "normalize-space0"}
		fn := fns[rapid.IntRange(0, len(fns)-1).Draw(t, "fn")]
		nt := multibyte(s)
		var e *xast.Expr
		switch fn {
		case "substring3":
			e = xast.Call("substring", S, P, L)
			nt = nt || a != math.Trunc(a) || b != math.Trunc(b) || math.IsNaN(a) || math.IsNaN(b) || math.IsInf(a, 0) || math.IsInf(b, 0)
		case "substring2":
			e = xast.Call("substring", S, P)
			nt = nt || a != math.Trunc(a) || math.IsNaN(a) || math.IsInf(a, 0)
		case "string-length":
			e = xast.Call("string-length", S)
		case "normalize-space":
			e = xast.Call("normalize-space", S)
			nt = nt || strings.ContainsAny(strings.TrimSpace(s), " \t\r\n ") || strings.ContainsAny(s, "  ")
		case "translate":
			e = xast.Call("translate", S, U, W)
			nt = nt || multibyte(u) || multibyte(w) || utf8.RuneCountInString(u) != utf8.RuneCountInString(w) || repeats(u)
		case "concat":
			// 2-14 arguments in drawn order (an argument-count threshold or a
			// reordering shows as a different string)
			pool := []*xast.Expr{S, U, W, xast.Str("<"), xast.Str(""), P, xast.Str("|")}
			n := rapid.IntRange(2, 14).Draw(t, "concatArgs")
			var args []*xast.Expr
			for i := 0; i < n; i++ {
				args = append(args, pool[rapid.IntRange(0, len(pool)-1).Draw(t, "concatArg")])
			}
			e = xast.Call("concat", args...)
			nt = nt || n > 3
		case "string-length0", "normalize-space0":
			e = xast.Path(true, xast.S("child", xast.Name("", "r")), &xast.Step{Call: xast.Call(strings.TrimSuffix(fn, "0"))})
			if rapid.Bool().Draw(t, "inPredicate") {
				e = xast.Bin("=", xast.Call(strings.TrimSuffix(fn, "0")), xast.Call(strings.TrimSuffix(fn, "0"), xast.Path(false, xast.S("self", xast.NodeT()))))
				c.Ctx = "/0"
			}
			if rapid.Bool().Draw(t, "otherNodeKind") {
				// the omitted argument is the context node, whatever its kind
				c.Events = []xmodel.Event{{K: "S", Local: "r"}, {K: "N", Local: "p", Value: "urn:" + s}, {K: "A", Local: "k", Value: s}, {K: "T", Value: s}, {K: "C", Value: s}, {K: "P", Local: "t", Value: s}, {K: "E"}}
				c.Ctx = []string{"/0", "/0/@0", "/0/0", "/0/1", "/0/2", "/0/ns:p", "/"}[rapid.IntRange(0, 6).Draw(t, "ctxKind")]
				if s == "" {
					c.Ctx = "/0/@0" // no text/comment child without a value in some builders: keep to the attribute
				}
				e = xast.Call(strings.TrimSuffix(fn, "0"))
				nt = true
				st.Class("omitted-argument ctx=" + c.Ctx)
			}
		default:
			e = xast.Call(fn, S, U)
			nt = nt || multibyte(u)
		}
		if !strings.HasSuffix(fn, "0") && rapid.IntRange(0, 3).Draw(t, "mixedContent") == 0 {
			// the string arrives as the string-value of an element with mixed content: s cut into text pieces
			// around a child element and a comment (<r>s1<b>s2</b><!--c-->s3</r>), passed as the node-set /r
			rs := []rune(s)
			i := rapid.IntRange(0, len(rs)).Draw(t, "cut1")
			j := rapid.IntRange(i, len(rs)).Draw(t, "cut2")
			ev := []xmodel.Event{{K: "S", Local: "r"}}
			if i > 0 {
				ev = append(ev, xmodel.Event{K: "T", Value: string(rs[:i])})
			}
			ev = append(ev, xmodel.Event{K: "S", Local: "b"})
			if j > i {
				ev = append(ev, xmodel.Event{K: "T", Value: string(rs[i:j])})
			}
			ev = append(ev, xmodel.Event{K: "E"}, xmodel.Event{K: "C", Value: "c"})
			if j < len(rs) {
				ev = append(ev, xmodel.Event{K: "T", Value: string(rs[j:])})
			}
			c.Events = append(ev, xmodel.Event{K: "E"})
			for k, arg := range e.A {
				if arg == S {
					e.A[k] = xast.Path(true, xast.S("child", xast.Name("", "r")))
				}
			}
			if len(e.A) == 2 && len(rs) > 0 && rapid.Bool().Draw(t, "relatedU") {
				// the second argument is a piece of the string itself (a prefix half of the time), so that
				// it spans the cuts
				from := 0
				if rapid.Bool().Draw(t, "uInside") {
					from = rapid.IntRange(0, len(rs)-1).Draw(t, "uFrom")
				}
				c.Vars[1].Str = string(rs[from:rapid.IntRange(from, len(rs)).Draw(t, "uTo")])
				st.Class("second argument is a piece of the mixed-content string")
			}
			st.Class("string-value of mixed content as argument")
		}
		c.Expr = e
		c.Text = xast.Render(e, xast.RapidChooser{T: t}, xast.Style{WS: rapid.Bool().Draw(t, "ws")})
		st.Eval(1)
		st.Class(fn)
		if excluded("C06-round-negative-tie") && strings.HasPrefix(fn, "substring") && (a < -0.5 && a-math.Floor(a) == 0.5 || b < -0.5 && b-math.Floor(b) == 0.5) {
			st.KnownHit("C06-round-negative-tie")
		}
		if nt {
			key := fn + "|" + s + "|" + u + "|" + w + "|" + c.Vars[3].Num + "|" + c.Vars[4].Num
			st.NonTrivial(key)
			st.Sample(key, map[string]any{"expr": c.Text, "s": s, "u": u, "w": w, "p": c.Vars[3].Num, "l": c.Vars[4].Num})
		}
		c07Str.run(t, c)
		// results are valid UTF-8 when the inputs are
		if lastRef.T == xref.TString && utf8.ValidString(s) && utf8.ValidString(u) && utf8.ValidString(w) && !utf8.ValidString(lastRef.S) {
			t.Fatalf("harness: reference produced invalid UTF-8")
		}
	})
	// literal arguments (strings written into the expression)
	runProp(t, "literals", 48000, 400000, func(t *rapid.T) {
		lit := func(label string) *xast.Expr {
			for {
				s := genUni(t, label)
				if !(strings.Contains(s, "'") && strings.Contains(s, "\"")) && !strings.Contains(s, "\\") && utf8.ValidString(s) && !strings.ContainsRune(s, 0) {
					return xast.Str(s)
				}
			}
		}
		n := func(label string) *xast.Expr {
			return xast.Num([]string{"0", "1", "2", "3", "1.5", "2.5", "0.5", "10"}[rapid.IntRange(0, 7).Draw(t, label)])
		}
		var e *xast.Expr
		switch rapid.IntRange(0, 4).Draw(t, "fn") {
		case 0:
			e = xast.Call("substring", lit("s"), n("p"), n("l"))
		case 1:
			e = xast.Call("translate", lit("s"), lit("u"), lit("w"))
		case 2:
			e = xast.Call("normalize-space", lit("s"))
		case 3:
			e = xast.Call("string-length", lit("s"))
		default:
			e = xast.Call("substring-after", lit("s"), lit("u"))
		}
		c := &evalCase{Events: []xmodel.Event{{K: "S", Local: "r"}, {K: "E"}}, Ctx: "/", Expr: e, Text: xast.Render(e, xast.RapidChooser{T: t}, drawStyle(t))}
		st.Eval(1)
		st.Class("literal-args")
		if multibyte(c.Text) {
			st.NonTrivial("lit|" + c.Text)
			st.Sample("lit|"+c.Text, map[string]any{"expr": c.Text})
		}
		c07Str.run(t, c)
	})
}

func repeats(s string) bool {
	seen := map[rune]bool{}
	for _, r := range s {
		if seen[r] {
			return true
		}
		seen[r] = true
	}
	return false
}
