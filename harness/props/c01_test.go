package props

import (
	"fmt"
	"os"
	"testing"

	"github.com/ChrisTrenkamp/xsel"
	"pgregory.net/rapid"

	"verif/xast"
	"verif/xmodel"
	"verif/xref"
)

// C01 - location steps select exactly the XPath 1.0 axis/node-test node set.

var c01Step = reg("C01", "c01-step", checkEvalCase)
var c01Path = reg("C01", "c01-path", checkEvalCase)
var c01Laws = reg("C01", "c01-laws", checkC01Laws)

func docCfg() xmodel.GenCfg {
	return xmodel.GenCfg{MaxDepth: 4, MaxKids: 3, MaxTop: 2, Forest: true, Wide: true, Undeclare: true, AllowBig: thorough()}
}

// docCfgStress is docCfg plus the occasional size-stress document (for checks that evaluate one expression per case).
func docCfgStress() xmodel.GenCfg {
	c := docCfg()
	c.Stress = true
	return c
}

// genBindings draws prefix bindings for queries over generated documents:
// query prefixes deliberately differ from the document's.
func genBindings(t *rapid.T) map[string]string {
	ns := map[string]string{"x": "urn:x", "y": "urn:y"}
	if rapid.Bool().Draw(t, "aliasPrefix") {
		ns["x2"] = "urn:x"
	}
	if rapid.Bool().Draw(t, "xmlPrefix") {
		ns["xml"] = xmodel.XMLNS
	}
	if rapid.IntRange(0, 3).Draw(t, "emptyPrefix") == 0 {
		// a binding for the empty prefix changes nothing: XPath 1.0 has no default namespace for name tests
		ns[""] = []string{"urn:x", "urn:y"}[rapid.IntRange(0, 1).Draw(t, "emptyPrefixURI")]
	}
	// prefixes that spell axis names and node types: with the document's element
	// names (child, self, text, node, comment, ancestor) they give QNames whose both
	// halves are reserved words
	for _, p := range []string{"child", "self", "text", "node", "ancestor"} {
		if rapid.IntRange(0, 3).Draw(t, "kw-"+p) == 0 {
			ns[p] = []string{"urn:x", "urn:y"}[rapid.IntRange(0, 1).Draw(t, "kwURI-"+p)]
		}
	}
	return ns
}

func prefixesOf(ns map[string]string) []string {
	var out []string
	for _, p := range []string{"x", "y", "x2", "xml", "child", "self", "text", "node", "ancestor"} {
		if _, ok := ns[p]; ok {
			out = append(out, p)
		}
	}
	return out
}

func nodeKindClass(n *xmodel.Node) string {
	if n.Kind == xmodel.Elem && n.Parent != nil && n.Parent.Kind == xmodel.Root {
		return "top-element"
	}
	if n.Parent != nil && n.Parent.Kind == xmodel.Root {
		return "top-" + n.Kind.String()
	}
	return n.Kind.String()
}

func TestC01(t *testing.T) {
	runWitnesses(t, "C01")
	if thorough() || os.Getenv("VERIF_C01_EXHAUSTIVE") != "" {
		runC01Exhaustive(t)
	}

	// (i) one step axis::test from every node of the document
	runProp(t, "step", 2500, 40000, func(t *rapid.T) {
		ev := xmodel.Gen(t, docCfg())
		p, err := prepareDoc(ev)
		if err != nil {
			st.Discard("document-not-mirrored")
			return
		}
		ns := genBindings(t)
		elems, attrs, targets := docNames(p.doc)
		g := &xast.G{T: t, Env: xast.GenEnv{ElemNames: queryable(elems), AttrNames: queryable(attrs), PITargets: targets, Prefixes: prefixesOf(ns)}}
		for _, ax := range xast.Axes {
			for k := 0; k < 2; k++ {
				step := &xast.Step{Axis: ax, Test: g.Test(ax)}
				expr := xast.Path(false, step)
				style := xast.Style{Abbrev: rapid.Bool().Draw(t, "abbrev")}
				text := xast.Render(expr, xast.RapidChooser{T: t}, style)
				for _, n := range p.doc.All {
					c := &evalCase{Events: ev, Ctx: n.Ref(), Expr: expr, Text: text, NS: ns}
					out, why, err := evalPrepared(c, p)
					if out == discarded {
						st.Discard(why)
						continue
					}
					st.Eval(1)
					st.Class("axis=" + ax + " ctx=" + n.Kind.String())
					if err != nil {
						recordFailure("C01", "c01-step", c, err.Error())
						t.Fatalf("C01/step: %v", err)
					}
					// non-trivial: expected set non-empty or context node not an element
					env := &xref.Env{Doc: p.doc, NS: ns}
					v, _ := env.Eval(expr, xref.Ctx{Node: n, Pos: 1, Size: 1})
					if len(v.Nodes) > 0 || n.Kind != xmodel.Elem {
						key := fmt.Sprintf("%v|%s|%s|%s|%v", len(p.doc.All), nodeKindClass(n), ax, step.Test.K, shapeKey(n))
						st.NonTrivial(key)
						if len(ev) <= 24 {
							st.Sample(key+text, map[string]any{"events": eventStrings(ev), "context": n.Ref() + " " + n.Describe(), "expr": text, "expected": refsOfNodes(v.Nodes)})
						}
					}
				}
			}
		}
	})

	// (ii) partition / duality / root laws on the implementation alone
	runProp(t, "laws", 3200, 20000, func(t *rapid.T) {
		c := &c01LawCase{Events: xmodel.Gen(t, docCfg())}
		c01Laws.run(t, c)
	})

	// (iii) multi-step paths, absolute paths inside predicates and arguments
	runProp(t, "paths", 24000, 300000, func(t *rapid.T) {
		ev := xmodel.Gen(t, docCfgStress())
		p, err := prepareDoc(ev)
		if err != nil {
			st.Discard("document-not-mirrored")
			return
		}
		ns := genBindings(t)
		elems, attrs, targets := docNames(p.doc)
		g := &xast.G{T: t, Env: xast.GenEnv{ElemNames: queryable(elems), AttrNames: queryable(attrs), PITargets: targets, Prefixes: prefixesOf(ns), NoLang: true}}
		var expr *xast.Expr
		kind := rapid.IntRange(0, 3).Draw(t, "pathKind")
		switch kind {
		case 0, 1: // multi-step path without predicates
			expr = g.RelPath(0, 4)
			expr.Abs = true
			if rapid.Bool().Draw(t, "leadingDS") {
				expr.Steps[0].DS = true
			}
		case 2: // absolute path inside a predicate: //a[/r/b], //a[//b = .]
			inner := g.RelPath(0, 2)
			inner.Abs = true
			inner.Steps[0].DS = rapid.Bool().Draw(t, "innerDS")
			var pred *xast.Expr = inner
			if rapid.Bool().Draw(t, "predCompare") {
				pred = xast.Bin("=", inner, xast.Path(false, xast.S("self", xast.NodeT())))
			}
			outer := g.RelPath(0, 2)
			outer.Abs = true
			outer.Steps[0].DS = true
			last := outer.Steps[len(outer.Steps)-1]
			last.Preds = append(last.Preds, pred)
			expr = outer
		default: // absolute path as a function argument, evaluated inside a predicate
			inner := g.RelPath(0, 2)
			inner.Abs = true
			outer := g.RelPath(0, 2)
			outer.Abs = true
			outer.Steps[0].DS = true
			last := outer.Steps[len(outer.Steps)-1]
			last.Preds = append(last.Preds, xast.Bin(">=", xast.Call("count", inner), xast.Num("1")))
			expr = outer
		}
		style := xast.Style{Abbrev: rapid.Bool().Draw(t, "abbrev")}
		text := xast.Render(expr, xast.RapidChooser{T: t}, style)
		c := &evalCase{Events: ev, Ctx: "/", Expr: expr, Text: text, NS: ns}
		out, why, err := evalPrepared(c, p)
		if out == discarded {
			st.Discard(why)
			return
		}
		st.Eval(1)
		st.Class(fmt.Sprintf("pathKind=%d", kind))
		env := &xref.Env{Doc: p.doc, NS: ns}
		if v, _ := env.Eval(expr, xref.Ctx{Node: p.doc.Root, Pos: 1, Size: 1}); len(v.Nodes) > 0 {
			st.NonTrivial(text + fmt.Sprint(ev))
			if len(ev) <= 24 {
				st.Sample(text+fmt.Sprint(ev), map[string]any{"events": eventStrings(ev), "expr": text, "expected": refsOfNodes(v.Nodes)})
			}
		}
		if err != nil {
			recordFailure("C01", "c01-path", c, err.Error())
			t.Fatalf("C01/paths: %v", err)
		}
	})

	// (iv) guided walks: every step chosen to select something, started from
	// the root, an inner context node, a mixed-kind node-set variable or a
	// parenthesised union; abbreviated or not
	runProp(t, "walks", 16000, 200000, func(t *rapid.T) {
		ev := xmodel.Gen(t, docCfgStress())
		p, err := prepareDoc(ev)
		if err != nil {
			st.Discard("document-not-mirrored")
			return
		}
		ns := genBindings(t)
		elems, attrs, targets := docNames(p.doc)
		ctx := p.doc.Root
		if rapid.Bool().Draw(t, "innerCtx") {
			ctx = p.doc.All[rapid.IntRange(0, len(p.doc.All)-1).Draw(t, "ctx")]
		}
		c := &evalCase{Events: ev, Ctx: ctx.Ref(), NS: ns, Vars: []varBinding{mixedNodeVar(t, p.doc, "w"), {Local: "n0", T: "num", Num: "2"}}}
		_, env, err := c.settings(p)
		if err != nil {
			t.Fatalf("harness: %v", err)
		}
		g := &xast.G{T: t, Env: xast.GenEnv{ElemNames: queryable(elems), AttrNames: queryable(attrs), PITargets: targets, Prefixes: prefixesOf(ns), NoLang: true, NodeVars: []string{"w"}, NumVars: []string{"n0"},
			NoAbs: ctx != p.doc.Root}}
		maxPreds := 0
		if rapid.IntRange(0, 3).Draw(t, "withPreds") == 0 {
			maxPreds = 1 // '//x[p]' is '/descendant-or-self::node()/child::x[p]': the predicate counts per parent
		}
		c.Expr = genWalk(t, g, env, ctx, ctx == p.doc.Root, 4, maxPreds)
		if maxPreds > 0 {
			// positional predicates whose text shows no number: [$n0] (= [2]), [string-length('ab')]
			for _, s := range c.Expr.Steps {
				for i, pr := range s.Preds {
					if pr.K == "num" {
						switch rapid.IntRange(0, 2).Draw(t, "hiddenNumber") {
						case 0:
							s.Preds[i] = xast.Var("n0")
						case 1:
							s.Preds[i] = xast.Call("string-length", xast.Str("ab"))
						}
					}
				}
			}
		}
		c.Text = xast.Render(c.Expr, xast.RapidChooser{T: t}, xast.Style{Abbrev: rapid.Bool().Draw(t, "abbrev")})
		if len(queryable(elems)) > 0 && rapid.IntRange(0, 7).Draw(t, "slashSlashPred") == 0 {
			// the section 2.5 NOTE: //x[n] is /descendant-or-self::node()/child::x[n], one count per parent - also
			// when the predicate's text shows no number
			pred := []*xast.Expr{xast.Var("n0"), xast.Call("string-length", xast.Str("ab")), xast.Num("2"), xast.Call("last"), xast.Bin("-", xast.Call("last"), xast.Num("1"))}[rapid.IntRange(0, 4).Draw(t, "ssPred")]
			last := &xast.Step{DS: true, Axis: "child", Test: xast.Name("", queryable(elems)[rapid.IntRange(0, len(queryable(elems))-1).Draw(t, "ssName")]), Preds: []*xast.Expr{pred}}
			if rapid.Bool().Draw(t, "ssAny") {
				last.Test = xast.Any()
			}
			c.Expr = extendPath(c.Expr, last)
			c.Text = xast.Render(c.Expr, xast.Abbrev, xast.Style{Abbrev: true})
			st.Class("walk-ends-with //x[n]")
		}
		out, why, err := evalPrepared(c, p)
		if out == discarded {
			st.Discard(why)
			return
		}
		st.Eval(1)
		if len(lastRef.Nodes) > 0 {
			axes := ""
			for _, s := range c.Expr.Steps {
				axes += s.Axis + "/"
			}
			st.Class("walk-ends-on " + c.Expr.Steps[len(c.Expr.Steps)-1].Axis)
			if c.Expr.Base != nil {
				st.Class("walk-from " + c.Expr.Base.K)
			}
			st.NonTrivial(c.Text + fmt.Sprint(ev))
			if len(ev) <= 24 {
				st.Sample(c.Text+fmt.Sprint(ev), map[string]any{"events": eventStrings(ev), "context": c.Ctx, "expr": c.Text, "w": c.Vars[0].Nodes, "expected": refsOfNodes(lastRef.Nodes)})
			}
		}
		if err != nil {
			recordFailure("C01", "c01-path", c, err.Error())
			t.Fatalf("C01/walks: %v", err)
		}
	})
}

// shapeKey summarises where a node sits (depth, sibling index, siblings) so
// that distinct positions in distinct shapes count as distinct cases.
func shapeKey(n *xmodel.Node) string {
	d := 0
	for p := n.Parent; p != nil; p = p.Parent {
		d++
	}
	sib, idx := 0, 0
	if n.Parent != nil {
		sib = len(n.Parent.Children)
		for i, c := range n.Parent.Children {
			if c == n {
				idx = i
			}
		}
	}
	return fmt.Sprintf("d%d.%d/%d.k%d", d, idx, sib, len(n.Children))
}

type c01LawCase struct {
	Events []xmodel.Event `json:"events"`
}

var lawExprs = map[string]*xsel.Grammar{}

func lawExpr(text string) *xsel.Grammar {
	if g, ok := lawExprs[text]; ok {
		return g
	}
	g := xsel.MustBuildExpr(text)
	lawExprs[text] = &g
	return &g
}

// checkC01Laws checks, using only the library: for every non-attribute,
// non-namespace node the five axes partition all such nodes; every axis is
// the converse of its dual; ancestors reach the root; the root has no parent
// and no siblings; the root's children are siblings of each other.
func checkC01Laws(c *c01LawCase) error {
	p, err := prepareDoc(c.Events)
	if err != nil {
		st.Discard("document-not-mirrored")
		return nil
	}
	var tree []*xmodel.Node
	for _, n := range p.doc.All {
		if n.Kind != xmodel.Attr && n.Kind != xmodel.NS {
			tree = append(tree, n)
		}
	}
	sel := func(n *xmodel.Node, ax string) (map[*xmodel.Node]bool, error) {
		r, err := safeExec(p.loc.ToCur[n], lawExpr(ax+"::node()"))
		if err != nil {
			return nil, fmt.Errorf("%s::node() from %s: %v", ax, n.Ref(), err)
		}
		ns, ok := r.(xsel.NodeSet)
		if !ok {
			return nil, fmt.Errorf("%s::node() from %s: not a node-set", ax, n.Ref())
		}
		if err := sliceInvariants(ns, p.loc, !xast.IsReverse(ax)); err != nil {
			return nil, fmt.Errorf("%s::node() from %s: %v", ax, n.Ref(), err)
		}
		out := map[*xmodel.Node]bool{}
		for _, cur := range ns {
			out[p.loc.ToNode[cur]] = true
		}
		return out, nil
	}
	axes := []string{"ancestor", "descendant", "following", "preceding", "self", "child", "parent", "following-sibling", "preceding-sibling"}
	res := map[string]map[*xmodel.Node]map[*xmodel.Node]bool{}
	for _, ax := range axes {
		res[ax] = map[*xmodel.Node]map[*xmodel.Node]bool{}
		for _, n := range tree {
			s, err := sel(n, ax)
			if err != nil {
				return err
			}
			res[ax][n] = s
			st.Eval(1)
		}
	}
	for _, n := range tree {
		count := map[*xmodel.Node]int{}
		for _, ax := range []string{"ancestor", "descendant", "following", "preceding", "self"} {
			for m := range res[ax][n] {
				if m.Kind == xmodel.Attr || m.Kind == xmodel.NS {
					return fmt.Errorf("%s::node() from %s contains the attribute/namespace node %s", ax, n.Ref(), m.Ref())
				}
				count[m]++
				if count[m] > 1 {
					return fmt.Errorf("partition law: %s is on two of the ancestor/descendant/following/preceding/self axes of %s", m.Ref(), n.Ref())
				}
			}
		}
		for _, m := range tree {
			if count[m] != 1 {
				return fmt.Errorf("partition law: %s (%s) is on none of the ancestor/descendant/following/preceding/self axes of %s (%s)", m.Ref(), m.Describe(), n.Ref(), n.Describe())
			}
		}
		if n != p.doc.Root && !res["ancestor"][n][p.doc.Root] {
			return fmt.Errorf("ancestor::node() from %s does not reach the root node", n.Ref())
		}
	}
	duals := [][2]string{{"child", "parent"}, {"descendant", "ancestor"}, {"following", "preceding"}, {"following-sibling", "preceding-sibling"}}
	for _, d := range duals {
		for _, n := range tree {
			for _, m := range tree {
				if res[d[0]][n][m] != res[d[1]][m][n] {
					return fmt.Errorf("duality law: %s in %s(%s) is %v but %s in %s(%s) is %v", m.Ref(), d[0], n.Ref(), res[d[0]][n][m], n.Ref(), d[1], m.Ref(), res[d[1]][m][n])
				}
			}
		}
	}
	root := p.doc.Root
	for _, ax := range []string{"parent", "following-sibling", "preceding-sibling"} {
		if len(res[ax][root]) != 0 {
			return fmt.Errorf("%s::node() from the root node is not empty", ax)
		}
	}
	kids := root.Children
	for i, a := range kids {
		for j, b := range kids {
			if i < j && (!res["following-sibling"][a][b] || !res["preceding-sibling"][b][a]) {
				return fmt.Errorf("children of the root %s and %s do not see each other as siblings", a.Ref(), b.Ref())
			}
		}
	}
	if len(tree) >= 4 {
		key := fmt.Sprint(c.Events)
		st.NonTrivial(key)
		if len(c.Events) <= 16 {
			st.Sample(key, map[string]any{"events": eventStrings(c.Events), "laws": "partition, duality, root"})
		}
	}
	return nil
}

// ---- bounded-exhaustive small trees (thorough tier) ----

// enumForests lists every ordered forest with exactly n nodes whose nodes are
// drawn from kinds; only elements may have children.  withExtras adds the
// variants "one attribute" and "one namespace declaration" to elements.
func enumForests(n int, withExtras bool) [][]xmodel.Event {
	type variant struct {
		open  []xmodel.Event
		close bool // is an element (takes children and an end event)
	}
	var kinds []variant
	for _, name := range []string{"a", "b"} {
		base := []xmodel.Event{{K: "S", Local: name}}
		kinds = append(kinds, variant{base, true})
		if withExtras {
			kinds = append(kinds, variant{append(append([]xmodel.Event{}, base...), xmodel.Event{K: "A", Local: "id", Value: "1"}), true})
			kinds = append(kinds, variant{append(append([]xmodel.Event{}, base...), xmodel.Event{K: "N", Local: "p", Value: "urn:x"}), true})
			kinds = append(kinds, variant{append(append([]xmodel.Event{}, base...), xmodel.Event{K: "N", Local: "p", Value: "urn:x"}, xmodel.Event{K: "A", Local: "id", Value: "1"}), true})
		}
	}
	kinds = append(kinds, variant{[]xmodel.Event{{K: "T", Value: "t"}}, false}, variant{[]xmodel.Event{{K: "C", Value: "c"}}, false}, variant{[]xmodel.Event{{K: "P", Local: "t", Value: "d"}}, false})
	memo := map[int][][]xmodel.Event{}
	var forests func(n int) [][]xmodel.Event
	forests = func(n int) [][]xmodel.Event {
		if n == 0 {
			return [][]xmodel.Event{nil}
		}
		if f, ok := memo[n]; ok {
			return f
		}
		var out [][]xmodel.Event
		// first tree has k nodes (1..n), the rest of the forest n-k
		for k := 1; k <= n; k++ {
			for _, v := range kinds {
				if !v.close && k != 1 {
					continue
				}
				var firsts [][]xmodel.Event
				if v.close {
					for _, kids := range forests(k - 1) {
						t := append(append(append([]xmodel.Event{}, v.open...), kids...), xmodel.Event{K: "E"})
						firsts = append(firsts, t)
					}
				} else {
					firsts = [][]xmodel.Event{v.open}
				}
				for _, f := range firsts {
					for _, rest := range forests(n - k) {
						out = append(out, append(append([]xmodel.Event{}, f...), rest...))
					}
				}
			}
		}
		memo[n] = out
		return out
	}
	return forests(n)
}

var exhaustiveTests = []xast.Test{{K: "name", L: "a"}, {K: "name", L: "b"}, {K: "any"}, {K: "node"}, {K: "text"}, {K: "comment"}, {K: "pi"}, {K: "pit", L: "t"}, {K: "localany", L: "a"}}

// runC01Exhaustive enumerates every document with up to 3 tree nodes (with
// attribute / namespace variants) and every document with exactly 4 tree nodes
// (without them) x every context node x 13 axes x 9 node tests.
func runC01Exhaustive(t *testing.T) {
	t.Run("exhaustive", func(t *testing.T) {
		defer finalizeFailures(t)
		type step struct {
			expr *xast.Expr
			text string
		}
		var steps []step
		for _, ax := range xast.Axes {
			for _, nt := range exhaustiveTests {
				if ax == "namespace" && nt.K != "node" && nt.K != "text" && nt.K != "comment" && nt.K != "pi" && nt.K != "pit" {
					continue // name tests on the namespace axis are out of scope
				}
				e := xast.Path(false, &xast.Step{Axis: ax, Test: nt})
				steps = append(steps, step{e, xast.RenderMinimal(e)})
			}
		}
		var docs [][]xmodel.Event
		for n := 0; n <= 3; n++ {
			docs = append(docs, enumForests(n, true)...)
		}
		docs = append(docs, enumForests(4, false)...)
		count := 0
		for i, ev := range docs {
			if i%envShards != envShard {
				continue
			}
			p, err := prepareDoc(ev)
			if err != nil {
				c := &c10Case{Events: ev}
				recordFailure("C01", "c01-laws", &c01LawCase{Events: ev}, "store does not mirror the stream: "+err.Error())
				_ = c
				t.Fatalf("C01/exhaustive: %v", err)
			}
			for _, s := range steps {
				for _, n := range p.doc.All {
					c := &evalCase{Events: ev, Ctx: n.Ref(), Expr: s.expr, Text: s.text}
					out, why, err := evalPrepared(c, p)
					if out == discarded {
						st.Discard(why)
						continue
					}
					st.Eval(1)
					count++
					if err != nil {
						recordFailure("C01", "c01-step", c, err.Error())
						t.Fatalf("C01/exhaustive: %v", err)
					}
				}
			}
			st.NonTrivial(fmt.Sprint("exhaustive", ev))
		}
		st.Note("exhaustive", fmt.Sprintf("every document with <= 3 tree nodes over {a, b, text, comment, pi} with 0/1 attribute and 0/1 namespace declaration per element, and every document with exactly 4 tree nodes without them (%d documents in total) x every context node x 13 axes x 9 node tests, enumerated completely over the shards (this shard: %d step evaluations)", len(docs), count))
	})
}
