package props

import (
	"crypto/sha256"
	"encoding/hex"
	"encoding/json"
	"flag"
	"fmt"
	"os"
	"path/filepath"
	"strconv"
	"strings"
	"testing"

	"pgregory.net/rapid"

	"verif/stats"
)

// Run parameters, from the driver's environment.
var (
	envSeed   uint64 = 1
	envShard  int
	envShards = 1
	envTier   = "quick"
	envOut    = ""
	envProp   = ""
	verifDir  = "/verif"
	st        = stats.New()
)

func getenvInt(k string, def int) int {
	if v := os.Getenv(k); v != "" {
		if n, err := strconv.Atoi(v); err == nil {
			return n
		}
	}
	return def
}

func TestMain(m *testing.M) {
	flag.Parse()
	if v := os.Getenv("VERIF_SEED"); v != "" {
		if n, err := strconv.ParseInt(v, 10, 64); err == nil {
			envSeed = uint64(n)
		}
	}
	envShard = getenvInt("VERIF_SHARD", 0)
	envShards = getenvInt("VERIF_SHARDS", 1)
	if v := os.Getenv("VERIF_TIER"); v != "" {
		envTier = v
	}
	if v := os.Getenv("VERIF_DIR"); v != "" {
		verifDir = v
	}
	envOut = os.Getenv("VERIF_OUT")
	envProp = os.Getenv("VERIF_PROP")
	if envOut == "" {
		d, _ := os.MkdirTemp("", "verif-out-")
		envOut = d
		defer os.RemoveAll(d)
	}
	os.MkdirAll(envOut, 0o755)
	loadKnownFindings()
	if os.Getenv("VERIF_CHILD") != "" {
		// re-executed as a child process for a property that needs one
		os.Exit(childMain())
	}
	code := m.Run()
	st.Flush(filepath.Join(envOut, fmt.Sprintf("shard-%d.json", envShard)))
	os.Exit(code)
}

func thorough() bool { return envTier == "thorough" }

func splitmix(x uint64) uint64 {
	x += 0x9e3779b97f4a7c15
	z := x
	z = (z ^ (z >> 30)) * 0xbf58476d1ce4e5b9
	z = (z ^ (z >> 27)) * 0x94d049bb133111eb
	return z ^ (z >> 31)
}

func strHash(s string) uint64 {
	h := sha256.Sum256([]byte(s))
	var x uint64
	for i := 0; i < 8; i++ {
		x = x<<8 | uint64(h[i])
	}
	return x
}

// runProp runs one rapid property as a subtest with a case count taken from
// the tier (split over the shards) and a seed derived from VERIF_SEED, the
// shard and the sub-property name.
func runProp(t *testing.T, name string, quickN, thoroughN int, prop func(t *rapid.T)) {
	t.Helper()
	n := quickN
	if thorough() {
		n = thoroughN
	}
	n = (n + envShards - 1) / envShards
	if n < 1 {
		n = 1
	}
	seed := splitmix(envSeed ^ splitmix(uint64(envShard)+1) ^ strHash(name))
	seed &= 0x7fffffffffffffff
	if seed == 0 {
		seed = 0x5eed
	}
	flag.Set("rapid.checks", strconv.Itoa(n))
	flag.Set("rapid.seed", strconv.FormatUint(seed, 10))
	flag.Set("rapid.nofailfile", "true")
	flag.Set("rapid.shrinktime", "20s")
	t.Run(name, func(t *testing.T) {
		defer finalizeFailures(t)
		rapid.Check(t, prop)
	})
}

// ---- failure recording and replay ----

type replayFile struct {
	Property string          `json:"property"`
	Kind     string          `json:"kind"`
	Message  string          `json:"message"`
	Case     json.RawMessage `json:"case"`
}

var replayers = map[string]func(raw json.RawMessage) error{}
var kindProp = map[string]string{}

// checker binds a property's pure check function to a replayable case type.
type checker[C any] struct {
	prop, kind string
	check      func(c *C) error
}

func reg[C any](prop, kind string, check func(c *C) error) *checker[C] {
	k := &checker[C]{prop, kind, check}
	kindProp[kind] = prop
	replayers[kind] = func(raw json.RawMessage) error {
		var c C
		if err := json.Unmarshal(raw, &c); err != nil {
			return fmt.Errorf("replay file does not decode: %v", err)
		}
		return check(&c)
	}
	return k
}

type failer interface {
	Fatalf(format string, args ...any)
	Helper()
}

// run executes the check on a generated case; a violation is saved (the last
// save of a rapid run is the shrunk case) and fails the rapid property.
func (k *checker[C]) run(t failer, c *C) {
	t.Helper()
	if err := k.check(c); err != nil {
		recordFailure(k.prop, k.kind, c, err.Error())
		t.Fatalf("%s/%s: %v", k.prop, k.kind, err)
	}
}

func pendingPath(kind string) string {
	return filepath.Join(envOut, fmt.Sprintf("pending-%d-%s.json", envShard, kind))
}

func recordFailure(prop, kind string, c any, msg string) {
	raw, err := json.Marshal(c)
	if err != nil {
		raw = []byte(`"unserialisable case"`)
	}
	b, _ := json.MarshalIndent(replayFile{prop, kind, msg, raw}, "", " ")
	os.WriteFile(pendingPath(kind), b, 0o644)
}

// finalizeFailures moves pending failure files (the shrunk cases) into
// /verif/replays/<prop>/ and prints the VIOLATION lines.
func finalizeFailures(t *testing.T) {
	matches, _ := filepath.Glob(filepath.Join(envOut, fmt.Sprintf("pending-%d-*.json", envShard)))
	for _, m := range matches {
		b, err := os.ReadFile(m)
		if err != nil {
			continue
		}
		var rf replayFile
		if json.Unmarshal(b, &rf) != nil {
			continue
		}
		sum := sha256.Sum256(rf.Case)
		dir := filepath.Join(verifDir, "replays", rf.Property)
		os.MkdirAll(dir, 0o755)
		dst := filepath.Join(dir, rf.Kind+"-"+hex.EncodeToString(sum[:6])+".json")
		os.WriteFile(dst, b, 0o644)
		os.Remove(m)
		fmt.Printf("VIOLATION property=%s replay=%s\n", rf.Property, dst)
		fmt.Printf("  detail: %s\n", firstLine(rf.Message))
	}
}

func firstLine(s string) string {
	if i := strings.IndexByte(s, '\n'); i >= 0 {
		return s[:i]
	}
	return s
}

// TestReplay re-runs one saved case (VERIF_REPLAY=<path>) through the same
// oracle, without rapid.
func TestReplay(t *testing.T) {
	path := os.Getenv("VERIF_REPLAY")
	if path == "" {
		t.Skip("no VERIF_REPLAY")
	}
	b, err := os.ReadFile(path)
	if err != nil {
		t.Fatalf("cannot read replay file: %v", err)
	}
	var rf replayFile
	if err := json.Unmarshal(b, &rf); err != nil {
		t.Fatalf("bad replay file: %v", err)
	}
	r, ok := replayers[rf.Kind]
	if !ok {
		t.Fatalf("unknown case kind %q", rf.Kind)
	}
	st.Eval(1)
	st.NonTrivial("replay:" + path)
	st.NonTrivial("replay2:" + path)
	st.Sample(path, map[string]any{"replayed": path, "kind": rf.Kind})
	err = r(rf.Case)
	for i, n := 1, getenvInt("VERIF_REPLAY_REPEAT", 1); i < n && err == nil; i++ {
		err = r(rf.Case) // schedule-dependent cases are re-run several times
	}
	if err != nil {
		fmt.Printf("VIOLATION property=%s replay=%s\n", rf.Property, path)
		fmt.Printf("  detail: %s\n", err)
		t.Fatalf("replay reproduces: %v", err)
	}
	fmt.Printf("replay of %s: the case passes on this tree\n", path)
}

// ---- known findings ----

type knownFinding struct {
	ID       string `json:"id"`
	Property string `json:"property"`
	Status   string `json:"status"` // "open" or "fixed"
	Commit   string `json:"commit,omitempty"`
	What     string `json:"what"`
	Witness  string `json:"witness"` // path relative to /verif of a replay-format file
}

var knownFindings []knownFinding
var openFlags = map[string]bool{}

func loadKnownFindings() {
	b, err := os.ReadFile(filepath.Join(verifDir, "known_findings.json"))
	if err != nil {
		return
	}
	var f struct {
		Findings []knownFinding `json:"findings"`
	}
	if json.Unmarshal(b, &f) != nil {
		fmt.Println("warning: known_findings.json does not parse")
		return
	}
	knownFindings = f.Findings
	for _, k := range knownFindings {
		if k.Status == "open" {
			openFlags[k.ID] = true
		}
	}
}

// kfOpen reports whether the finding is listed as open; checks use it to
// exclude (and count) exactly the defective behaviour that finding names.
func kfOpen(id string) bool { return openFlags[id] }

// runWitnesses executes the witnesses of a property's findings: an open
// finding that still fails prints KNOWN-FINDING; a fixed finding that fails
// again is a violation.
func runWitnesses(t *testing.T, prop string) {
	if envShard != 0 {
		return
	}
	for _, k := range knownFindings {
		if k.Property != prop {
			continue
		}
		path := filepath.Join(verifDir, k.Witness)
		b, err := os.ReadFile(path)
		if err != nil {
			t.Errorf("known finding %s: witness unreadable: %v", k.ID, err)
			continue
		}
		var rf replayFile
		if err := json.Unmarshal(b, &rf); err != nil {
			t.Errorf("known finding %s: bad witness: %v", k.ID, err)
			continue
		}
		r, ok := replayers[rf.Kind]
		if !ok {
			t.Errorf("known finding %s: unknown case kind %q", k.ID, rf.Kind)
			continue
		}
		witnessMode = true
		err = r(rf.Case)
		witnessMode = false
		st.Eval(1)
		switch {
		case k.Status == "open" && err != nil:
			fmt.Printf("KNOWN-FINDING: property=%s %s [%s]\n", prop, k.What, k.ID)
			st.KnownHit(k.ID + ":witness")
		case k.Status == "open":
			fmt.Printf("note: known finding %s no longer reproduces on this tree\n", k.ID)
		case err != nil:
			fmt.Printf("VIOLATION property=%s replay=%s\n", prop, path)
			fmt.Printf("  detail: fixed finding %s is back: %s\n", k.ID, firstLine(err.Error()))
			t.Errorf("fixed finding %s is back: %v", k.ID, err)
		}
	}
}

// witnessMode makes checks ignore open-finding exclusions, so a witness is
// judged by the plain property.
var witnessMode bool

func excluded(id string) bool { return kfOpen(id) && !witnessMode }
