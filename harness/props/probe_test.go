package props

import (
	"testing"

	"pgregory.net/rapid"

	"verif/xast"
)

var probeAny = reg("C00", "probe-any", checkEvalCase)

func TestProbe(t *testing.T) {
	runProp(t, "any", 5000, 200000, func(t *rapid.T) {
		c, p := genDocCase(t, caseOpts{cfg: docCfg(), anyCtx: true, vars: true, nodeVars: true}, func(g *xast.G, p *prepared) *xast.Expr {
			return g.Any(3)
		}, drawStyle(t))
		if c == nil {
			return
		}
		out, why, err := evalPrepared(c, p)
		if out == discarded {
			st.Discard(why)
			return
		}
		st.Eval(1)
		if err != nil {
			recordFailure("C00", "probe-any", c, err.Error())
			t.Fatalf("%v", err)
		}
	})
}
