package props

import (
	"fmt"
	"sort"
	"strings"
	"testing"
	"unicode/utf8"

	"github.com/ChrisTrenkamp/xsel"
	"github.com/ChrisTrenkamp/xsel/store"
	"golang.org/x/text/encoding/charmap"
	"pgregory.net/rapid"

	"verif/xmodel"
)

// C09 - ReadXml builds the XPath data model of the XML document.

type c09Case struct {
	Events []xmodel.Event `json:"events"` // the abstract document
	Bytes  []byte         `json:"bytes"`  // its serialisation, as given to ReadXml
	Enc    string         `json:"enc,omitempty"`
	// a malformed document given to ReadXml just before (its outcome is not judged here): one call's failure
	// must not change what the next call returns
	Before []byte `json:"before,omitempty"`
}

type c09BadCase struct {
	Bytes []byte `json:"bytes"`
	How   string `json:"how"`
}

var c09Tree = reg("C09", "c09-tree", checkC09)
var c09Bad = reg("C09", "c09-malformed", checkC09Bad)

func xmlCfg() xmodel.GenCfg {
	return xmodel.GenCfg{MaxDepth: 4, MaxKids: 4, MaxTop: 2, XMLSafe: true, XMLEverywhere: true, Undeclare: true, Wide: true, AllowBig: thorough(), Stress: true,
		Names:  []string{"a", "b", "c", "a-b", "a.b", "a1", "é", "_u", "child", "div"},
		Values: []string{"1", "2", "abc", "x y", " lead", "trail ", "<&>", "a\"b", "a'b", "é€", "𝄞", "]]>", "&amp;", "\t", "line\nbreak", "10", "жук", "ÿþ", "naïve", "Türkçe", "αβγ", "łódź", "þð",
			// characters whose ISO-8859-1 / windows-1252 bytes happen to form valid UTF-8 sequences
			"\ufeffx", "x\ufeff", "\u200bz", "Ã©", "Â£Ã©", "caf\u00c3\u00a9", "Ã\u00a0"}}
}

type xmlSer struct {
	t      *rapid.T
	sb     strings.Builder
	feats  map[string]bool
	latin1 bool // characters must fit an 8-bit charset: use numeric references above 0x7F
	cm     *charmap.Charmap
}

func canEncode(cm *charmap.Charmap, r rune) bool {
	_, ok := cm.EncodeRune(r)
	return ok
}

func (s *xmlSer) coin(label string, n int) bool { return rapid.IntRange(0, n-1).Draw(s.t, label) == 0 }

func (s *xmlSer) escText(v string, attr bool, quote byte) string {
	var sb strings.Builder
	for _, r := range v {
		switch {
		case r == '<':
			sb.WriteString("&lt;")
		case r == '&':
			sb.WriteString("&amp;")
		case r == '>':
			sb.WriteString("&gt;") // also protects "]]>"
		case attr && r == rune(quote):
			if quote == '"' {
				sb.WriteString("&quot;")
			} else {
				sb.WriteString("&apos;")
			}
		case attr && (r == '\t' || r == '\n' || r == '\r'):
			// literal white space in attribute values is subject to
			// attribute-value normalisation, which the property does not
			// speak about: always a character reference
			fmt.Fprintf(&sb, "&#%d;", r)
		case !attr && r == '\r':
			sb.WriteString("&#13;") // a literal CR would be normalised to LF
		case s.latin1 && r > 0x7F && s.cm != nil && s.coin("literal8bit", 2) && canEncode(s.cm, r):
			sb.WriteRune(r) // the charset has this character: write it as a byte of that charset
			s.feats["8-bit-character"] = true
		case s.latin1 && r > 0x7F:
			fmt.Fprintf(&sb, "&#x%X;", r)
			s.feats["reference"] = true
		case s.coin("charRef", 12):
			if s.coin("hexRef", 2) {
				fmt.Fprintf(&sb, "&#x%x;", r)
			} else {
				fmt.Fprintf(&sb, "&#%d;", r)
			}
			s.feats["reference"] = true
		default:
			sb.WriteRune(r)
		}
	}
	return sb.String()
}

// text writes character data, optionally split over CDATA sections and
// plain runs (all of which form ONE text node).
func (s *xmlSer) text(v string) {
	if v == "" {
		return
	}
	if !s.latin1 && s.coin("cdata", 4) {
		// 1..4 pieces, each plain or a CDATA section, with empty CDATA
		// sections before, between and after them
		rs := []rune(v)
		nCuts := rapid.IntRange(0, 3).Draw(s.t, "cdataCuts")
		cuts := []int{0, len(rs)}
		for i := 0; i < nCuts; i++ {
			cuts = append(cuts, rapid.IntRange(0, len(rs)).Draw(s.t, "cdataCut"))
		}
		sort.Ints(cuts)
		empty := func() {
			if s.coin("emptyCdata", 4) {
				s.sb.WriteString("<![CDATA[]]>")
				s.feats["empty-cdata"] = true
			}
		}
		empty()
		for i := 0; i+1 < len(cuts); i++ {
			piece := string(rs[cuts[i]:cuts[i+1]])
			if piece == "" {
				continue
			}
			if !strings.Contains(piece, "]]>") && !strings.Contains(piece, "\r") && s.coin("cdataPiece", 2) {
				s.sb.WriteString("<![CDATA[" + piece + "]]>")
				s.feats["cdata"] = true
			} else {
				s.sb.WriteString(s.escText(piece, false, 0))
			}
			empty()
		}
		return
	}
	s.sb.WriteString(s.escText(v, false, 0))
}

func qname(prefix, local string) string {
	if prefix == "" {
		return local
	}
	return prefix + ":" + local
}

func (s *xmlSer) node(n *xmodel.Node) {
	switch n.Kind {
	case xmodel.Text:
		s.text(n.Value)
	case xmodel.Comment:
		s.sb.WriteString("<!--" + n.Value + "-->")
	case xmodel.PI:
		s.sb.WriteString("<?" + n.Local)
		if n.Value != "" {
			s.sb.WriteString(" " + n.Value)
		}
		s.sb.WriteString("?>")
	case xmodel.Elem:
		s.sb.WriteString("<" + qname(n.Prefix, n.Local))
		type at struct{ name, val string }
		var ats []at
		for _, d := range n.Decls {
			if d.Local == "xml" {
				// the xml prefix is implicitly bound; declaring it explicitly (to its
				// own namespace) is legal and changes nothing
				if s.coin("explicitXmlPrefix", 8) {
					ats = append(ats, at{"xmlns:xml", d.Value})
					s.feats["explicit-xml-prefix"] = true
				}
				continue
			}
			name := "xmlns"
			if d.Local != "" {
				name = "xmlns:" + d.Local
			}
			ats = append(ats, at{name, d.Value})
			if d.Value == "" {
				s.feats["default-undeclared"] = true
			}
		}
		nDecl := len(ats)
		for _, a := range n.Attrs {
			ats = append(ats, at{qname(a.Prefix, a.Local), a.Value})
		}
		// namespace declarations may come after ordinary attributes in XML
		if nDecl > 0 && nDecl < len(ats) && s.coin("declsLast", 3) {
			ats = append(ats[nDecl:], ats[:nDecl]...)
		}
		for _, a := range ats {
			q := byte('"')
			if s.coin("aposQuote", 3) {
				q = '\''
			}
			s.sb.WriteString([]string{" ", "  ", "\n", "\t"}[rapid.IntRange(0, 3).Draw(s.t, "attrWS")])
			s.sb.WriteString(a.name + "=" + string(q) + s.escText(a.val, true, q) + string(q))
		}
		if len(n.Children) == 0 && s.coin("emptyTag", 2) {
			s.sb.WriteString([]string{"/>", " />"}[rapid.IntRange(0, 1).Draw(s.t, "emptyForm")])
			return
		}
		s.sb.WriteString(">")
		for _, c := range n.Children {
			s.node(c)
		}
		s.sb.WriteString("</" + qname(n.Prefix, n.Local) + []string{">", " >", "\n>"}[rapid.IntRange(0, 2).Draw(s.t, "endWS")])
	}
}

// label -> the charset it names (WHATWG labels, which the adapter's charset
// reader follows; for the characters generated here ISO-8859-1/-9 and their
// windows-125x supersets agree)
var encodings = map[string]*charmap.Charmap{"ISO-8859-1": charmap.ISO8859_1, "ISO-8859-15": charmap.ISO8859_15, "windows-1252": charmap.Windows1252, "KOI8-R": charmap.KOI8R,
	"latin1": charmap.ISO8859_1, "l1": charmap.ISO8859_1, "cp1252": charmap.Windows1252, "ISO-8859-2": charmap.ISO8859_2, "latin2": charmap.ISO8859_2,
	"ISO-8859-5": charmap.ISO8859_5, "windows-1251": charmap.Windows1251, "ISO-8859-7": charmap.ISO8859_7, "greek": charmap.ISO8859_7,
	"ISO-8859-9": charmap.ISO8859_9, "latin5": charmap.ISO8859_9, "l5": charmap.ISO8859_9, "ISO-8859-10": charmap.ISO8859_10, "latin6": charmap.ISO8859_10, "Latin6": charmap.ISO8859_10}

var encodingLabels = []string{"", "", "", "UTF-8", "utf-8", "US-ASCII", "ISO-8859-1", "ISO-8859-15", "windows-1252", "KOI8-R", "latin1", "l1", "cp1252", "ISO-8859-2", "latin2",
	"ISO-8859-5", "windows-1251", "ISO-8859-7", "greek", "ISO-8859-9", "latin5", "l5", "ISO-8859-10", "latin6", "Latin6"}

// serialise renders the model as an XML document under drawn choices.
func serialise(t *rapid.T, d *xmodel.Doc, utf8Only bool) ([]byte, string, map[string]bool, bool) {
	s := &xmlSer{t: t, feats: map[string]bool{}}
	enc := encodingLabels[rapid.IntRange(0, len(encodingLabels)-1).Draw(t, "encoding")]
	if utf8Only && enc != "" {
		enc = "UTF-8"
	}
	s.latin1 = enc != "" && !strings.EqualFold(enc, "UTF-8")
	s.cm = encodings[enc]
	if s.latin1 {
		s.feats["non-utf8-encoding"] = true
	}
	if enc != "" || rapid.Bool().Draw(t, "xmlDecl") {
		s.sb.WriteString("<?xml version=\"1.0\"")
		if enc != "" {
			s.sb.WriteString(" encoding=\"" + enc + "\"")
		}
		if rapid.IntRange(0, 3).Draw(t, "standalone") == 0 {
			s.sb.WriteString(" standalone=\"yes\"")
		}
		s.sb.WriteString("?>")
		s.feats["xml-declaration"] = true
	}
	topWS := func() {
		s.sb.WriteString([]string{"", "", "\n", " ", "\r\n", "\n\t"}[rapid.IntRange(0, 5).Draw(t, "topWS")])
	}
	seenElem := false
	for _, c := range d.Root.Children {
		topWS()
		if c.Kind == xmodel.Elem && !seenElem {
			seenElem = true
			if rapid.IntRange(0, 3).Draw(t, "doctype") == 0 {
				s.sb.WriteString("<!DOCTYPE " + qname(c.Prefix, c.Local) + ">")
				topWS()
				s.feats["doctype"] = true
			}
		} else if c.Kind != xmodel.Elem {
			s.feats["prolog-or-epilog-node"] = true
		}
		s.node(c)
	}
	topWS()
	text := s.sb.String()
	if cm, ok := encodings[enc]; ok {
		b, err := cm.NewEncoder().Bytes([]byte(text))
		if err != nil {
			return nil, enc, s.feats, false
		}
		return b, enc, s.feats, true
	}
	if enc == "US-ASCII" {
		for i := 0; i < len(text); i++ {
			if text[i] > 0x7F {
				return nil, enc, s.feats, false // a name that ASCII cannot spell
			}
		}
	}
	return []byte(text), enc, s.feats, true
}

func safeReadXML(b []byte) (c store.Cursor, err error) {
	defer func() {
		if r := recover(); r != nil {
			err = &panicError{r}
		}
	}()
	return xsel.ReadXml(readerFor(b))
}

func checkC09(c *c09Case) error {
	model := xmodel.Build(c.Events)
	if c.Before != nil {
		safeReadXML(c.Before)
	}
	cur, err := safeReadXML(c.Bytes)
	if pe, ok := err.(*panicError); ok {
		return fmt.Errorf("ReadXml panicked: %v\n%s", pe.v, showBytes(c.Bytes))
	}
	if err != nil {
		return fmt.Errorf("ReadXml failed on a well-formed document: %v\n%s", err, showBytes(c.Bytes))
	}
	if cur == nil {
		return fmt.Errorf("ReadXml returned nil, nil")
	}
	if _, err := xmodel.Locate(model, cur); err != nil {
		return fmt.Errorf("tree is not the document's data model: %v\n%s", err, showBytes(c.Bytes))
	}
	return cursorContract(cur)
}

func showBytes(b []byte) string {
	if utf8.Valid(b) {
		return "document: " + string(b)
	}
	return fmt.Sprintf("document bytes: %q", b)
}

func checkC09Bad(c *c09BadCase) error {
	cur, err := safeReadXML(c.Bytes)
	if pe, ok := err.(*panicError); ok {
		return fmt.Errorf("ReadXml panicked: %v\n%s", pe.v, showBytes(c.Bytes))
	}
	if err == nil {
		n := 0
		if cur != nil {
			n = len(cur.Children())
		}
		return fmt.Errorf("ReadXml returned a tree (%d top-level nodes) and a nil error for a malformed document (%s)\n%s", n, c.How, showBytes(c.Bytes))
	}
	return nil
}

func hasPrefixedOrDefault(ev []xmodel.Event) bool {
	for _, e := range ev {
		if e.K == "N" && e.Local != "xml" {
			return true
		}
	}
	return false
}

func overriddenPrefix(ev []xmodel.Event) bool {
	_, o, _, _ := c10Features(ev)
	return o
}

func TestC09(t *testing.T) {
	runWitnesses(t, "C09")
	runProp(t, "tree", 100000, 1000000, func(t *rapid.T) {
		ev := xmodel.Gen(t, xmlCfg())
		doc := xmodel.Build(ev)
		b, enc, feats, ok := serialise(t, doc, false)
		if !ok {
			st.Discard("not-encodable-in-charset")
			return
		}
		c := &c09Case{Events: ev, Bytes: b, Enc: enc}
		st.Eval(1)
		for f := range feats {
			st.Class(f)
		}
		if overriddenPrefix(ev) {
			st.Class("inherited-prefix-overridden")
			feats["override"] = true
		}
		if hasPrefixedOrDefault(ev) && len(feats) > 0 {
			st.NonTrivial(string(b))
			if len(b) <= 300 && utf8.Valid(b) {
				st.Sample(string(b), map[string]any{"xml": string(b)})
			}
		}
		if rapid.IntRange(0, 3).Draw(t, "failingCallBefore") == 0 {
			bad := [][]byte{[]byte("<a><b>"), []byte("<a><b></a>"), []byte("<a>&nosuch;</a>"), []byte("<a b=1/>"), []byte("<a><![CDATA[x"), []byte("<a>\xff</a>"), []byte("\n<a>\n<b>\n")}
			c.Before = bad[rapid.IntRange(0, len(bad)-1).Draw(t, "before")]
			if len(b) > 8 && rapid.Bool().Draw(t, "truncatedSelf") {
				c.Before = append([]byte{}, b[:len(b)*2/3]...)
			}
			st.Class("after-a-failing-call")
		}
		c09Tree.run(t, c)
	})
	runProp(t, "malformed", 60000, 400000, func(t *rapid.T) {
		ev := xmodel.Gen(t, xmodel.GenCfg{MaxDepth: 3, MaxKids: 3, XMLSafe: true, XMLEverywhere: true, Names: []string{"a", "b", "c"}, Values: []string{"1", "abc", "x y"}})
		doc := xmodel.Build(ev)
		b, _, _, ok := serialise(t, doc, true)
		if !ok {
			st.Discard("not-encodable-in-charset")
			return
		}
		text := string(b)
		c := &c09BadCase{}
		ends := allIndexes(text, "</")
		switch rapid.IntRange(0, 7).Draw(t, "how") {
		case 0:
			if len(ends) == 0 {
				st.Discard("no-end-tag")
				return
			}
			// rename an end tag
			i := ends[rapid.IntRange(0, len(ends)-1).Draw(t, "which")]
			c.Bytes, c.How = []byte(text[:i+2]+"zz"+text[i+2:]), "mismatched end tag"
		case 1:
			if len(ends) == 0 {
				st.Discard("no-end-tag")
				return
			}
			// drop an end tag
			i := ends[rapid.IntRange(0, len(ends)-1).Draw(t, "which")]
			j := i + strings.IndexByte(text[i:], '>') + 1
			c.Bytes, c.How = []byte(text[:i]+text[j:]), "missing end tag"
		case 2:
			// truncate inside the document element
			first := strings.Index(text, "<"+qname(doc.Root.Children[0].Prefix, doc.Root.Children[0].Local))
			for _, ch := range doc.Root.Children {
				if ch.Kind == xmodel.Elem {
					first = strings.Index(text, "<"+qname(ch.Prefix, ch.Local))
				}
			}
			last := strings.LastIndex(text, ">")
			if first < 0 || last <= first+1 {
				st.Discard("nothing-to-truncate")
				return
			}
			cut := rapid.IntRange(first+1, last).Draw(t, "cut")
			c.Bytes, c.How = []byte(text[:cut]), "truncated inside the document element"
		case 3:
			// inside element content: right before an end tag
			if len(ends) == 0 {
				st.Discard("no-end-tag")
				return
			}
			i := ends[rapid.IntRange(0, len(ends)-1).Draw(t, "which")]
			ent := []string{"&undefined;", "&nbsp;", "&copy;", "&eacute;", "&hellip;", "&x;", "&amp", "&#xZZ;", "&;"}[rapid.IntRange(0, 8).Draw(t, "entity")]
			c.Bytes, c.How = []byte(text[:i]+ent+text[i:]), "undefined entity or malformed reference"
		case 4:
			if len(ends) == 0 {
				st.Discard("no-end-tag")
				return
			}
			i := ends[rapid.IntRange(0, len(ends)-1).Draw(t, "which")]
			bad := []string{"\x01", "\x00", "\xff", "\xc3(", "\x0b", "\uFFFE"}[rapid.IntRange(0, 5).Draw(t, "badChar")]
			c.Bytes, c.How = []byte(text[:i]+bad+text[i:]), "invalid character or encoding"
		case 5:
			// only in element tags: encoding/xml does not check the XML declaration's pseudo-attributes
			body := 0
			if strings.HasPrefix(text, "<?xml") {
				body = strings.Index(text, "?>") + 2
			}
			c.Bytes, c.How = []byte(text[:body]+strings.Replace(text[body:], "=\"", "=", 1)), "unquoted attribute value"
			if string(c.Bytes) == text {
				c.Bytes, c.How = []byte(text+"<"), "dangling markup"
			}
		case 6:
			c.Bytes, c.How = []byte("<?xml version=\"1.0\" encoding=\"no-such-charset\"?>"+strings.TrimPrefix(text, "<?xml")), "unknown encoding"
			if strings.HasPrefix(text, "<?xml") {
				st.Discard("already-has-declaration")
				return
			}
		default:
			lt := allIndexes(text, "<")
			i := lt[rapid.IntRange(0, len(lt)-1).Draw(t, "which")]
			c.Bytes, c.How = []byte(text[:i]+"<"+text[i:]), "doubled '<'"
		}
		// a mutation that happens to leave a document the harness's own strict
		// reader accepts (balanced, no syntax error) is not malformed: not judged
		if ev2, err := xmlBytesToEvents(c.Bytes); err == nil && nestingBalanced(ev2) {
			st.Discard("mutation-still-well-formed")
			return
		}
		st.Eval(1)
		st.Class(c.How)
		st.NonTrivial(string(c.Bytes))
		if len(c.Bytes) <= 200 {
			st.Sample(string(c.Bytes), map[string]any{"bytes": fmt.Sprintf("%q", c.Bytes), "how": c.How})
		}
		c09Bad.run(t, c)
	})
}

func allIndexes(s, sub string) []int {
	var out []int
	for i := 0; ; {
		j := strings.Index(s[i:], sub)
		if j < 0 {
			return out
		}
		out = append(out, i+j)
		i += j + len(sub)
	}
}

// inMarkupAfter: is position i inside a comment / PI / CDATA / doctype, or
// outside the document element (where content is not allowed anyway)?
func inMarkupAfter(text string, i int) bool {
	before := text[:i]
	for _, p := range [][2]string{{"<!--", "-->"}, {"<?", "?>"}, {"<![CDATA[", "]]>"}, {"<!DOCTYPE", ">"}} {
		if o := strings.LastIndex(before, p[0]); o >= 0 && !strings.Contains(before[o:], p[1]) {
			return true
		}
	}
	return false
}
