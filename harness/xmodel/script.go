package xmodel

import (
	"errors"
	"fmt"
	"io"

	"github.com/ChrisTrenkamp/xsel/node"
	"github.com/ChrisTrenkamp/xsel/store"
)

// Node implementations for the scripted Parser.  Each type implements only
// the methods of its own node interface so the store's type switches see
// exactly one kind.

// The scripted node types are deliberately NOT comparable (a slice field): a user-written Parser may hand out
// any types that implement the node interfaces, and comparing two of them with == would panic.
type sElem struct {
	space, local string
	pad          []int
}

func (e sElem) Space() string { return e.space }
func (e sElem) Local() string { return e.local }

type sAttr struct {
	space, local, value string
	pad                 []int
}

func (a sAttr) Space() string          { return a.space }
func (a sAttr) Local() string          { return a.local }
func (a sAttr) AttributeValue() string { return a.value }

type sNS struct {
	prefix, value string
	pad           []int
}

func (n sNS) Prefix() string         { return n.prefix }
func (n sNS) NamespaceValue() string { return n.value }

type sText struct {
	value string
	pad   []int
}

func (t sText) CharDataValue() string { return t.value }

type sComment struct {
	value string
	pad   []int
}

func (c sComment) CommentValue() string { return c.value }

type sPI struct {
	target, value string
	pad           []int
}

func (p sPI) Target() string        { return p.target }
func (p sPI) ProcInstValue() string { return p.value }

var ErrScripted = errors.New("scripted parser error")

// Script is a parser.Parser replaying an event list.
type Script struct {
	Events []Event
	i      int
}

func (s *Script) Pull() (node.Node, bool, error) {
	if s.i >= len(s.Events) {
		return nil, false, io.EOF
	}
	e := s.Events[s.i]
	s.i++
	switch e.K {
	case "S":
		return sElem{space: e.Space, local: e.Local}, false, nil
	case "E":
		return nil, true, nil
	case "N":
		return sNS{prefix: e.Local, value: e.Value}, false, nil
	case "A":
		return sAttr{space: e.Space, local: e.Local, value: e.Value}, false, nil
	case "T":
		return sText{value: e.Value}, false, nil
	case "C":
		return sComment{value: e.Value}, false, nil
	case "P":
		return sPI{target: e.Local, value: e.Value}, false, nil
	case "X":
		return nil, false, ErrScripted
	}
	return nil, false, fmt.Errorf("bad event %q", e.K)
}

// Loc is the bijection model node <-> cursor found by a parallel walk.
type Loc struct {
	Doc    *Doc
	ToCur  map[*Node]store.Cursor
	ToNode map[store.Cursor]*Node
}

func kindOf(n node.Node) Kind {
	switch n.(type) {
	case node.Namespace:
		return NS
	case node.Attribute:
		return Attr
	case node.CharData:
		return Text
	case node.Comment:
		return Comment
	case node.ProcInst:
		return PI
	case node.Element:
		return Elem
	}
	return Root
}

// KindOfCursor classifies a cursor's node the way the library does.
func KindOfCursor(c store.Cursor) Kind { return kindOf(c.Node()) }

func describeCursor(c store.Cursor) string {
	switch v := c.Node().(type) {
	case node.Namespace:
		return fmt.Sprintf("namespace %s=%q", v.Prefix(), v.NamespaceValue())
	case node.Attribute:
		return fmt.Sprintf("attribute {%s}%s=%q", v.Space(), v.Local(), v.AttributeValue())
	case node.CharData:
		return fmt.Sprintf("text %q", v.CharDataValue())
	case node.Comment:
		return fmt.Sprintf("comment %q", v.CommentValue())
	case node.ProcInst:
		return fmt.Sprintf("pi %s %q", v.Target(), v.ProcInstValue())
	case node.Element:
		return fmt.Sprintf("element {%s}%s", v.Space(), v.Local())
	}
	return "root"
}

// DescribeCursor renders a cursor's own node for messages.
func DescribeCursor(c store.Cursor) string { return describeCursor(c) }

func sameNode(m *Node, c store.Cursor) bool {
	if kindOf(c.Node()) != m.Kind {
		return false
	}
	switch v := c.Node().(type) {
	case node.Namespace:
		return v.Prefix() == m.Local && v.NamespaceValue() == m.Value
	case node.Attribute:
		return v.Space() == m.Space && v.Local() == m.Local && v.AttributeValue() == m.Value
	case node.CharData:
		return v.CharDataValue() == m.Value
	case node.Comment:
		return v.CommentValue() == m.Value
	case node.ProcInst:
		return v.Target() == m.Local && v.ProcInstValue() == m.Value
	case node.Element:
		return v.Space() == m.Space && v.Local() == m.Local
	}
	return true
}

// Locate walks the model and the cursor tree in parallel.  Children and
// attributes are matched by index, namespace nodes by prefix (their relative
// order is implementation-dependent in XPath; the model's list is reordered
// to the store's order so that "document order" means the same on both
// sides).  Any structural difference is reported as an error.
func Locate(d *Doc, root store.Cursor) (*Loc, error) {
	l := &Loc{Doc: d, ToCur: map[*Node]store.Cursor{}, ToNode: map[store.Cursor]*Node{}}
	var walk func(m *Node, c store.Cursor) error
	walk = func(m *Node, c store.Cursor) error {
		if c == nil {
			return fmt.Errorf("%s: nil cursor", m.Ref())
		}
		if !sameNode(m, c) {
			return fmt.Errorf("%s: model has %s, tree has %s", m.Ref(), m.Describe(), describeCursor(c))
		}
		if _, dup := l.ToNode[c]; dup {
			return fmt.Errorf("%s: cursor %s appears twice in the tree", m.Ref(), describeCursor(c))
		}
		l.ToCur[m] = c
		l.ToNode[c] = m
		if m.Kind != Elem && m.Kind != Root {
			if len(c.Children()) != 0 || len(c.Attributes()) != 0 || len(c.Namespaces()) != 0 {
				return fmt.Errorf("%s: leaf %s has children/attributes/namespaces", m.Ref(), m.Describe())
			}
			return nil
		}
		ns := c.Namespaces()
		if len(ns) != len(m.NSNodes) {
			return fmt.Errorf("%s (%s): %d in-scope namespace bindings expected %v, tree has %d %v", m.Ref(), m.Describe(), len(m.NSNodes), descNodes(m.NSNodes), len(ns), descCursors(ns))
		}
		reordered := make([]*Node, 0, len(ns))
		used := map[*Node]bool{}
		for _, nc := range ns {
			if nc == nil {
				return fmt.Errorf("%s: nil namespace cursor", m.Ref())
			}
			nv, ok := nc.Node().(node.Namespace)
			if !ok {
				return fmt.Errorf("%s: Namespaces() lists a non-namespace %s", m.Ref(), describeCursor(nc))
			}
			var found *Node
			for _, mn := range m.NSNodes {
				if !used[mn] && mn.Local == nv.Prefix() {
					found = mn
					break
				}
			}
			if found == nil {
				return fmt.Errorf("%s (%s): unexpected namespace node %s; expected bindings %v", m.Ref(), m.Describe(), describeCursor(nc), descNodes(m.NSNodes))
			}
			used[found] = true
			reordered = append(reordered, found)
			if err := walk(found, nc); err != nil {
				return err
			}
		}
		m.NSNodes = reordered
		at := c.Attributes()
		if len(at) != len(m.Attrs) {
			return fmt.Errorf("%s (%s): %d attributes expected %v, tree has %d %v", m.Ref(), m.Describe(), len(m.Attrs), descNodes(m.Attrs), len(at), descCursors(at))
		}
		for i, ac := range at {
			if err := walk(m.Attrs[i], ac); err != nil {
				return err
			}
		}
		ch := c.Children()
		if len(ch) != len(m.Children) {
			return fmt.Errorf("%s (%s): %d children expected %v, tree has %d %v", m.Ref(), m.Describe(), len(m.Children), descNodes(m.Children), len(ch), descCursors(ch))
		}
		for i, cc := range ch {
			if err := walk(m.Children[i], cc); err != nil {
				return err
			}
		}
		return nil
	}
	if err := walk(d.Root, root); err != nil {
		return nil, err
	}
	d.Renumber()
	return l, nil
}

func descNodes(ns []*Node) []string {
	out := make([]string, 0, len(ns))
	for _, n := range ns {
		out = append(out, n.Describe())
	}
	return out
}

func descCursors(cs []store.Cursor) []string {
	out := make([]string, 0, len(cs))
	for _, c := range cs {
		if c == nil {
			out = append(out, "<nil>")
			continue
		}
		out = append(out, describeCursor(c))
	}
	return out
}

// BuildStore runs the event list through the scripted parser into the
// in-memory store.
func BuildStore(events []Event) (c store.Cursor, err error) {
	defer func() {
		if r := recover(); r != nil {
			c, err = nil, fmt.Errorf("CreateInMemory PANICKED on the event stream: %v", r)
		}
	}()
	c, err = store.CreateInMemory(&Script{Events: events})
	return c, err
}
