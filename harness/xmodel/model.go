// Package xmodel is the harness's own abstract document: an XPath 1.0 data
// model tree built from a parser event list.  It shares no code with xsel.
package xmodel

import (
	"fmt"
	"strings"
)

type Kind int

const (
	Root Kind = iota
	Elem
	Attr
	NS
	Text
	Comment
	PI
)

var kindNames = [...]string{"root", "element", "attribute", "namespace", "text", "comment", "pi"}

func (k Kind) String() string { return kindNames[k] }

// Event is one item of a parser.Parser stream.
//
//	S start element (Space, Local, Prefix hint)   E end element
//	N namespace (Local = prefix, Value = URI)     A attribute (Space, Local, Value, Prefix hint)
//	T text (Value)   C comment (Value)            P processing instruction (Local = target, Value)
//	X the parser returns a non-EOF error here
type Event struct {
	K      string `json:"k"`
	Space  string `json:"ns,omitempty"`
	Local  string `json:"n,omitempty"`
	Value  string `json:"v,omitempty"`
	Prefix string `json:"p,omitempty"`
}

func (e Event) String() string {
	switch e.K {
	case "S":
		return fmt.Sprintf("<{%s}%s", e.Space, e.Local)
	case "E":
		return "/>"
	case "N":
		return fmt.Sprintf("xmlns:%s=%q", e.Local, e.Value)
	case "A":
		return fmt.Sprintf("@{%s}%s=%q", e.Space, e.Local, e.Value)
	case "T":
		return fmt.Sprintf("text(%q)", e.Value)
	case "C":
		return fmt.Sprintf("comment(%q)", e.Value)
	case "P":
		return fmt.Sprintf("pi(%s,%q)", e.Local, e.Value)
	}
	return e.K
}

type Node struct {
	Kind     Kind
	Space    string // element / attribute namespace URI
	Local    string // element / attribute local name; NS: prefix; PI: target
	Value    string // attribute / text / comment / PI value; NS: URI
	Prefix   string // serialisation hint (element / attribute)
	Parent   *Node
	Children []*Node
	Attrs    []*Node
	NSNodes  []*Node // in-scope namespace nodes (one per binding), owned by this element
	Decls    []Event // the N events that were emitted for this element, in order
	Ord      int     // document-order index, assigned by Doc.Renumber
	Last     int     // Ord of the last node in this node's subtree (incl. own ns/attrs)
}

type Doc struct {
	Root *Node
	All  []*Node // every node of every kind in document order
}

// Build mirrors what a store has to do with an event stream obeying the
// Parser contract: nest by start/end, surplus end events at top level are
// ignored, an element inherits its parent's namespace bindings and overrides
// them by prefix.  Events after an "X" are never seen.
func Build(events []Event) *Doc {
	root := &Node{Kind: Root}
	cur := root
	for _, e := range events {
		switch e.K {
		case "X":
			goto done
		case "S":
			n := &Node{Kind: Elem, Space: e.Space, Local: e.Local, Prefix: e.Prefix, Parent: cur}
			for _, pn := range cur.NSNodes {
				n.NSNodes = append(n.NSNodes, &Node{Kind: NS, Local: pn.Local, Value: pn.Value, Parent: n})
			}
			cur.Children = append(cur.Children, n)
			cur = n
		case "E":
			if cur.Parent != nil {
				cur = cur.Parent
			}
		case "N":
			cur.Decls = append(cur.Decls, e)
			if e.Local == "" && e.Value == "" {
				// xmlns="" undeclares the default namespace: no namespace node
				kept := cur.NSNodes[:0]
				for _, x := range cur.NSNodes {
					if x.Local != "" {
						kept = append(kept, x)
					}
				}
				cur.NSNodes = kept
				continue
			}
			replaced := false
			for _, x := range cur.NSNodes {
				if x.Local == e.Local {
					x.Value = e.Value
					replaced = true
					break
				}
			}
			if !replaced {
				cur.NSNodes = append(cur.NSNodes, &Node{Kind: NS, Local: e.Local, Value: e.Value, Parent: cur})
			}
		case "A":
			cur.Attrs = append(cur.Attrs, &Node{Kind: Attr, Space: e.Space, Local: e.Local, Value: e.Value, Prefix: e.Prefix, Parent: cur})
		case "T":
			cur.Children = append(cur.Children, &Node{Kind: Text, Value: e.Value, Parent: cur})
		case "C":
			cur.Children = append(cur.Children, &Node{Kind: Comment, Value: e.Value, Parent: cur})
		case "P":
			cur.Children = append(cur.Children, &Node{Kind: PI, Local: e.Local, Value: e.Value, Parent: cur})
		}
	}
done:
	d := &Doc{Root: root}
	d.Renumber()
	return d
}

// Renumber assigns document order: element, its namespace nodes, its
// attributes, its children.
func (d *Doc) Renumber() {
	d.All = d.All[:0]
	var walk func(n *Node)
	walk = func(n *Node) {
		n.Ord = len(d.All)
		d.All = append(d.All, n)
		for _, x := range n.NSNodes {
			x.Ord = len(d.All)
			x.Last = x.Ord
			d.All = append(d.All, x)
		}
		for _, x := range n.Attrs {
			x.Ord = len(d.All)
			x.Last = x.Ord
			d.All = append(d.All, x)
		}
		for _, c := range n.Children {
			walk(c)
		}
		n.Last = len(d.All) - 1
	}
	walk(d.Root)
}

// Path is the structural key of a node: list indices from the root.
// Namespace list < attribute list < child list at every level.
func (n *Node) Path() []int {
	if n.Parent == nil {
		return nil
	}
	p := n.Parent.Path()
	var list []*Node
	off := 0
	switch n.Kind {
	case NS:
		list, off = n.Parent.NSNodes, 0
	case Attr:
		list, off = n.Parent.Attrs, 1<<20
	default:
		list, off = n.Parent.Children, 2<<20
	}
	for i, x := range list {
		if x == n {
			return append(p, off+i)
		}
	}
	return append(p, -1)
}

// PathString renders a structural key readably: /c0/c2/@1 , /c0/ns0.
func (n *Node) PathString() string {
	if n.Parent == nil {
		return "/"
	}
	var sb strings.Builder
	for _, i := range n.Path() {
		switch {
		case i >= 2<<20:
			fmt.Fprintf(&sb, "/c%d", i-(2<<20))
		case i >= 1<<20:
			fmt.Fprintf(&sb, "/@%d", i-(1<<20))
		default:
			fmt.Fprintf(&sb, "/ns%d", i)
		}
	}
	return sb.String()
}

// Locator string used in replay files: kinds and indices, independent of
// namespace-node order (namespace nodes are addressed by prefix).
func (n *Node) Ref() string {
	if n.Parent == nil {
		return "/"
	}
	base := n.Parent.Ref()
	if base == "/" {
		base = ""
	}
	switch n.Kind {
	case NS:
		return base + "/ns:" + n.Local
	case Attr:
		for i, x := range n.Parent.Attrs {
			if x == n {
				return fmt.Sprintf("%s/@%d", base, i)
			}
		}
	default:
		for i, x := range n.Parent.Children {
			if x == n {
				return fmt.Sprintf("%s/%d", base, i)
			}
		}
	}
	return base + "/?"
}

// Resolve finds the node for a Ref string.
func (d *Doc) Resolve(ref string) *Node {
	n := d.Root
	if ref == "/" || ref == "" {
		return n
	}
	for _, part := range strings.Split(strings.TrimPrefix(ref, "/"), "/") {
		if n == nil {
			return nil
		}
		switch {
		case strings.HasPrefix(part, "ns:"):
			var f *Node
			for _, x := range n.NSNodes {
				if x.Local == part[3:] {
					f = x
				}
			}
			n = f
		case strings.HasPrefix(part, "@"):
			var i int
			fmt.Sscanf(part[1:], "%d", &i)
			if i >= len(n.Attrs) {
				return nil
			}
			n = n.Attrs[i]
		default:
			var i int
			fmt.Sscanf(part, "%d", &i)
			if i >= len(n.Children) {
				return nil
			}
			n = n.Children[i]
		}
	}
	return n
}

// StringValue is the XPath string-value of a node.
func (n *Node) StringValue() string {
	switch n.Kind {
	case Root, Elem:
		var sb strings.Builder
		var walk func(x *Node)
		walk = func(x *Node) {
			for _, c := range x.Children {
				if c.Kind == Text {
					sb.WriteString(c.Value)
				} else if c.Kind == Elem {
					walk(c)
				}
			}
		}
		walk(n)
		return sb.String()
	}
	return n.Value
}

func (n *Node) Describe() string {
	switch n.Kind {
	case Root:
		return "root"
	case Elem:
		return fmt.Sprintf("element {%s}%s", n.Space, n.Local)
	case Attr:
		return fmt.Sprintf("attribute {%s}%s=%q", n.Space, n.Local, n.Value)
	case NS:
		return fmt.Sprintf("namespace %s=%q", n.Local, n.Value)
	case Text:
		return fmt.Sprintf("text %q", n.Value)
	case Comment:
		return fmt.Sprintf("comment %q", n.Value)
	case PI:
		return fmt.Sprintf("pi %s %q", n.Local, n.Value)
	}
	return "?"
}

// IsAncestorOf reports whether n is a proper ancestor of m.
func (n *Node) IsAncestorOf(m *Node) bool {
	for p := m.Parent; p != nil; p = p.Parent {
		if p == n {
			return true
		}
	}
	return false
}

// Flatten turns a model tree back into an event list (used by generators
// that build trees first).  Namespace events are the element's Decls.
func Flatten(root *Node) []Event {
	var out []Event
	var walk func(n *Node)
	walk = func(n *Node) {
		switch n.Kind {
		case Elem:
			out = append(out, Event{K: "S", Space: n.Space, Local: n.Local, Prefix: n.Prefix})
			out = append(out, n.Decls...)
			for _, a := range n.Attrs {
				out = append(out, Event{K: "A", Space: a.Space, Local: a.Local, Value: a.Value, Prefix: a.Prefix})
			}
			for _, c := range n.Children {
				walk(c)
			}
			out = append(out, Event{K: "E"})
		case Text:
			out = append(out, Event{K: "T", Value: n.Value})
		case Comment:
			out = append(out, Event{K: "C", Value: n.Value})
		case PI:
			out = append(out, Event{K: "P", Local: n.Local, Value: n.Value})
		}
	}
	for _, c := range root.Children {
		walk(c)
	}
	return out
}
