package xmodel

import (
	"pgregory.net/rapid"
)

const XMLNS = "http://www.w3.org/XML/1998/namespace"

// GenCfg steers the document generator.
type GenCfg struct {
	MaxDepth      int
	MaxKids       int  // max children per element
	MaxTop        int  // max top-level items besides the document element(s)
	XMLSafe       bool // only shapes a well-formed XML document can express
	Forest        bool // allow several top-level elements / top-level text (scripted route only)
	Numeric       bool // bias text/attribute values towards numerals
	NoNS          bool // no namespaces at all
	AllowBig      bool // one case in four is a large document (depth +2, fan-out +2, up to 150 elements)
	Wide          bool // occasionally give one element 33-40 children (size thresholds)
	Undeclare     bool // allow xmlns="" (an unprefixed, no-namespace element below a default namespace)
	XMLEverywhere bool // emit the xml binding on every element (as the XML adapter does)
	stressWide    bool // (WideDoc)
	Stress        bool // one case in 100 is a size-stress document: a chain 33-130 elements deep or 65-257 bindings in scope (WideDoc: 257-2049 siblings)
	Names         []string
	Values        []string
}

var DefaultNames = []string{"a", "b", "c", "a", "b", "d", "child", "self", "text", "node", "comment", "ancestor", "a-b", "a.b", "a1", "é",
	"parent-id", "child-x", "self.x", "text1", "node-a", "div-a", "or1", "and-c", "mod.d", "descendant-or-self-x", "processing-instruction-y", "preceding-", "a--b", "following.sibling",
	// names that read like numbers to a careless parser
	"nan", "inf", "Infinity", "NaN", "e1", "x10"}
var DefaultValues = []string{"", "1", "2", "3", "10", "9", " 12 ", "1e3", "+1", "-0", "-5", "NaN", "Infinity", "0x10", ".5", "5.", "abc", "b", "é€", "x y", "2.5", "007", "-2.50", "\t4\n"}
var NumericValues = []string{"1", "2", "3", "10", "9", "2.5", "-1", "0", "100", "0.5", " 7 ", "abc", "", "1", "2", "3", "10", "9", "2.5", "-1", "0",
	// a numeral beyond the double range: +Infinity as a number, and a perfectly ordinary string
	"1000000000000000000000000000000000000000000000000000000000000000000000000000000000000000000000000000000000000000000000000000000000000000000000000000000000000000000000000000000000000000000000000000000000000000000000000000000000000000000000000000000000000000000000000000000000000000000000000000000000000000000000000000"}

// "urn:xa-" + "b" spells the same as "urn:x" + "a-b": expanded names are pairs, not concatenations
var uris = []string{"urn:x", "urn:y", "urn:x", "urn:y", "urn:xa-"}
// "Xml" is an ordinary prefix: only the exact lower-case "xml" is reserved for the XML namespace
var prefixes = []string{"p", "q", "", "p", "q", "", "Xml"}

type binding struct{ prefix, uri string }

type gen struct {
	t        *rapid.T
	cfg      GenCfg
	count    int
	max      int
	wideDone bool
}

func (g *gen) pick(label string, pool []string) string {
	return pool[rapid.IntRange(0, len(pool)-1).Draw(g.t, label)]
}

func (g *gen) value(label string) string {
	pool := g.cfg.Values
	if pool == nil {
		pool = DefaultValues
		if g.cfg.Numeric {
			pool = NumericValues
		}
	}
	v := g.pick(label, pool)
	if g.cfg.XMLSafe {
		return xmlSafeText(v)
	}
	return v
}

func xmlSafeText(s string) string {
	out := make([]rune, 0, len(s))
	for _, r := range s {
		if r == 0x9 || r == 0xA || r == 0xD || (r >= 0x20 && r <= 0xD7FF) || (r >= 0xE000 && r <= 0xFFFD) || r >= 0x10000 {
			out = append(out, r)
		}
	}
	return string(out)
}

// Gen draws an event list for a whole document.
func Gen(t *rapid.T, cfg GenCfg) []Event {
	if cfg.MaxDepth == 0 {
		cfg.MaxDepth = 4
	}
	if cfg.MaxKids == 0 {
		cfg.MaxKids = 4
	}
	if cfg.Names == nil {
		cfg.Names = DefaultNames
	}
	if cfg.Stress && rapid.IntRange(0, 99).Draw(t, "stressDocument") == 0 {
		return genStress(t, cfg)
	}
	g := &gen{t: t, cfg: cfg, max: 40}
	if cfg.AllowBig && rapid.IntRange(0, 3).Draw(t, "bigDocument") == 0 {
		g.cfg.MaxDepth += 2
		g.cfg.MaxKids += 2
		g.max = 150
	}
	root := &Node{Kind: Root}
	// prolog
	nTop := 0
	if cfg.MaxTop > 0 {
		nTop = rapid.IntRange(0, cfg.MaxTop).Draw(t, "prolog")
	}
	for i := 0; i < nTop; i++ {
		root.Children = append(root.Children, g.misc(root))
	}
	nElems := 1
	if cfg.Forest {
		nElems = rapid.IntRange(1, 3).Draw(t, "topElems")
	}
	for i := 0; i < nElems; i++ {
		if cfg.Forest && rapid.IntRange(0, 3).Draw(t, "topText") == 0 {
			root.Children = append(root.Children, &Node{Kind: Text, Value: g.value("topTextVal"), Parent: root})
		}
		var inScope []binding
		root.Children = append(root.Children, g.element(root, 1, inScope, true))
	}
	if cfg.MaxTop > 0 {
		nTop = rapid.IntRange(0, cfg.MaxTop).Draw(t, "epilog")
		for i := 0; i < nTop; i++ {
			root.Children = append(root.Children, g.misc(root))
		}
	}
	return Flatten(root)
}

func (g *gen) misc(parent *Node) *Node {
	if rapid.Bool().Draw(g.t, "miscIsComment") {
		return &Node{Kind: Comment, Value: g.commentValue(), Parent: parent}
	}
	return g.pi(parent)
}

func (g *gen) commentValue() string {
	return g.pick("commentVal", []string{"c", "note", "", " x ", "1", "a b", "l1\nl2"})
}

func (g *gen) pi(parent *Node) *Node {
	return &Node{Kind: PI, Local: g.pick("piTarget", []string{"t", "u", "style", "xml-stylesheet", "xmlfoo", "x.y"}), Value: g.pick("piVal", []string{"", "d", "x=1", "2", "d\ne"}), Parent: parent}
}

func lookup(scope []binding, prefix string) (string, bool) {
	for i := len(scope) - 1; i >= 0; i-- {
		if scope[i].prefix == prefix {
			return scope[i].uri, true
		}
	}
	return "", false
}

func (g *gen) element(parent *Node, depth int, scope []binding, top bool) *Node {
	g.count++
	n := &Node{Kind: Elem, Parent: parent}
	scope = append([]binding(nil), scope...)
	if top || g.cfg.XMLEverywhere {
		if !g.cfg.NoNS || g.cfg.XMLEverywhere {
			n.Decls = append(n.Decls, Event{K: "N", Local: "xml", Value: XMLNS})
		}
	}
	if len(n.Decls) == 1 && n.Decls[0].Local == "xml" && !g.cfg.XMLSafe && rapid.IntRange(0, 9).Draw(g.t, "xmlAgain") == 0 {
		// the xml prefix declared a second time on the same element: still one namespace node
		n.Decls = append(n.Decls, Event{K: "N", Local: "xml", Value: XMLNS})
	}
	if !g.cfg.NoNS {
		nd := rapid.IntRange(0, 6).Draw(g.t, "nDecls") - 3
		for i := 0; i < nd; i++ {
			p := g.pick("declPrefix", prefixes)
			u := g.pick("declURI", uris)
			dup := false
			for _, d := range n.Decls {
				if d.Local == p {
					dup = true
				}
			}
			if dup && g.cfg.XMLSafe {
				continue // an XML element cannot declare a prefix twice
			}
			n.Decls = append(n.Decls, Event{K: "N", Local: p, Value: u})
			scope = append(scope, binding{p, u})
		}
	}
	if g.cfg.Wide && !g.cfg.NoNS && rapid.IntRange(0, 11).Draw(g.t, "manyDecls") == 0 {
		// many bindings in scope (size thresholds): 5-12 further prefixes,
		// often with a default namespace among them
		nd := rapid.IntRange(5, 12).Draw(g.t, "nManyDecls")
		for i := 0; i < nd; i++ {
			p := "n" + string(rune('a'+i))
			u := g.pick("manyURI", []string{"urn:x", "urn:y", "urn:n" + string(rune('a'+i))})
			n.Decls = append(n.Decls, Event{K: "N", Local: p, Value: u})
			scope = append(scope, binding{p, u})
		}
		declared := false
		for _, d := range n.Decls {
			if d.Local == "" {
				declared = true
			}
		}
		if !declared && rapid.Bool().Draw(g.t, "manyDefault") {
			u := g.pick("declURI", uris)
			n.Decls = append(n.Decls, Event{K: "N", Local: "", Value: u})
			scope = append(scope, binding{"", u})
		}
	}
	// element name: pick a binding in scope or none
	n.Local = g.pick("elemName", g.cfg.Names)
	var usable []binding
	seen := map[string]bool{}
	for i := len(scope) - 1; i >= 0; i-- {
		if !seen[scope[i].prefix] {
			seen[scope[i].prefix] = true
			if scope[i].uri != "" {
				usable = append(usable, scope[i])
			}
		}
	}
	defURI, hasDef := lookup(scope, "")
	if len(usable) > 0 && rapid.Bool().Draw(g.t, "elemInNS") {
		b := usable[rapid.IntRange(0, len(usable)-1).Draw(g.t, "elemBinding")]
		n.Space, n.Prefix = b.uri, b.prefix
	} else if !hasDef && g.cfg.Undeclare && func() bool {
		for _, d := range n.Decls {
			if d.Local == "" {
				return false
			}
		}
		return rapid.IntRange(0, 5).Draw(g.t, "redundantUndeclare") == 0
	}() {
		// xmlns="" although no default namespace is in scope: legal, and the
		// element has no namespace node for it either
		n.Decls = append(n.Decls, Event{K: "N", Local: "", Value: ""})
	} else if hasDef && defURI != "" {
		declaredHere := false
		for _, d := range n.Decls {
			if d.Local == "" {
				declaredHere = true
			}
		}
		if g.cfg.Undeclare && !declaredHere && rapid.Bool().Draw(g.t, "undeclareDefault") {
			n.Decls = append(n.Decls, Event{K: "N", Local: "", Value: ""})
			scope = append(scope, binding{"", ""})
		} else {
			// an unprefixed element would be in the default namespace
			n.Space, n.Prefix = defURI, ""
		}
	}
	// attributes
	na := rapid.IntRange(0, 5).Draw(g.t, "nAttrs") - 2
	for i := 0; i < na; i++ {
		a := &Node{Kind: Attr, Parent: n, Local: g.pick("attrName", []string{"id", "k", "a", "b", "lang", "x-y", "LANG"}), Value: g.value("attrVal")}
		var pref []binding
		for _, b := range usable {
			if b.prefix != "" {
				pref = append(pref, b)
			}
		}
		if len(pref) > 0 && rapid.IntRange(0, 2).Draw(g.t, "attrInNS") == 0 {
			b := pref[rapid.IntRange(0, len(pref)-1).Draw(g.t, "attrBinding")]
			a.Space, a.Prefix = b.uri, b.prefix
		} else if (a.Local == "lang" || a.Local == "LANG") && (top || !g.cfg.NoNS || g.cfg.XMLEverywhere) && rapid.Bool().Draw(g.t, "xmlLang") {
			a.Space, a.Prefix = XMLNS, "xml"
			a.Value = g.pick("langVal", []string{"en", "en-US", "de", "", "EN-gb", "fr-CA"})
		}
		dup := false
		for _, x := range n.Attrs {
			if x.Space == a.Space && x.Local == a.Local {
				dup = true
			}
		}
		if !dup {
			n.Attrs = append(n.Attrs, a)
		}
	}
	if g.cfg.Wide && rapid.IntRange(0, 11).Draw(g.t, "manyAttrs") == 0 {
		// many attributes (size thresholds): 3-12 further ones
		extra := rapid.IntRange(3, 12).Draw(g.t, "nManyAttrs")
		for i := 0; i < extra; i++ {
			n.Attrs = append(n.Attrs, &Node{Kind: Attr, Parent: n, Local: "m" + string(rune('a'+i)), Value: g.value("attrVal")})
		}
	}
	// children
	if g.cfg.Wide && !g.wideDone && depth <= 2 && rapid.IntRange(0, 24).Draw(g.t, "wide") == 0 {
		// a wide element: thresholds on the number of children / siblings
		g.wideDone = true
		nw := rapid.IntRange(33, 40).Draw(g.t, "wideKids")
		for i := 0; i < nw; i++ {
			c := &Node{Kind: Elem, Parent: n, Local: g.pick("wideName", []string{"a", "b", "c"})}
			if g.cfg.XMLEverywhere {
				c.Decls = append(c.Decls, Event{K: "N", Local: "xml", Value: XMLNS})
			}
			if defURI, hasDef := lookup(scope, ""); hasDef && defURI != "" {
				c.Space = defURI
			}
			if i%7 == 3 {
				c.Children = append(c.Children, &Node{Kind: Text, Value: g.value("wideText"), Parent: c})
				if g.cfg.XMLSafe && c.Children[0].Value == "" {
					c.Children = nil
				}
			}
			n.Children = append(n.Children, c)
		}
		return n
	}
	if depth < g.cfg.MaxDepth && g.count < g.max {
		nk := rapid.IntRange(0, g.cfg.MaxKids).Draw(g.t, "nKids")
		lastText := false
		for i := 0; i < nk; i++ {
			switch k := rapid.IntRange(0, 9).Draw(g.t, "kidKind"); {
			case k <= 4:
				n.Children = append(n.Children, g.element(n, depth+1, scope, false))
				lastText = false
			case k <= 7:
				if lastText && g.cfg.XMLSafe {
					continue
				}
				v := g.value("textVal")
				if v == "" && g.cfg.XMLSafe {
					continue
				}
				n.Children = append(n.Children, &Node{Kind: Text, Value: v, Parent: n})
				lastText = true
			case k == 8:
				n.Children = append(n.Children, &Node{Kind: Comment, Value: g.commentValue(), Parent: n})
				lastText = false
			default:
				n.Children = append(n.Children, g.pi(n))
				lastText = false
			}
		}
	} else if rapid.Bool().Draw(g.t, "leafText") {
		v := g.value("leafTextVal")
		if !(v == "" && g.cfg.XMLSafe) {
			n.Children = append(n.Children, &Node{Kind: Text, Value: v, Parent: n})
		}
	}
	return n
}

// genStress draws a document whose SIZE is the point: nesting far beyond
// any inline buffer, sibling counts beyond chunk sizes, more bindings in
// scope than a machine word has bits.  Everything else is plain.
func genStress(t *rapid.T, cfg GenCfg) []Event {
	name := func(label string) string { return cfg.Names[rapid.IntRange(0, len(cfg.Names)-1).Draw(t, label)] }
	val := func(i int) string { return []string{"1", "2", "5", "10", "x", "2.5"}[i%6] }
	var ev []Event
	xml := func() {
		if cfg.XMLEverywhere {
			ev = append(ev, Event{K: "N", Local: "xml", Value: XMLNS})
		}
	}
	kind := rapid.IntRange(0, 1).Draw(t, "stressKind") * 2 // deep chains and many bindings; very wide documents only where asked for (WideDoc)
	if cfg.stressWide {
		kind = 1
	}
	switch kind {
	case 0:
		// a deep chain with text on several levels and at the bottom
		depth := []int{33, 64, 65, 66, 70, 100, 130}[rapid.IntRange(0, 6).Draw(t, "stressDepth")]
		for i := 0; i < depth; i++ {
			ev = append(ev, Event{K: "S", Local: name("deepName")})
			if i == 0 || cfg.XMLEverywhere {
				if !cfg.NoNS || cfg.XMLEverywhere {
					ev = append(ev, Event{K: "N", Local: "xml", Value: XMLNS})
				}
			}
			if i == 0 && !cfg.NoNS {
				ev = append(ev, Event{K: "A", Space: XMLNS, Local: "lang", Prefix: "xml", Value: "en"})
			}
			if i%50 == 7 {
				ev = append(ev, Event{K: "A", Local: "id", Value: val(i)})
			}
		}
		ev = append(ev, Event{K: "T", Value: "5"})
		for i := depth - 1; i >= 0; i-- {
			ev = append(ev, Event{K: "E"})
			if i%40 == 3 && i > 0 {
				ev = append(ev, Event{K: "S", Local: name("sideName")})
				xml()
				ev = append(ev, Event{K: "T", Value: val(i)}, Event{K: "E"})
			}
		}
	case 1:
		// very many siblings
		n := []int{257, 1023, 1024, 1025, 1027, 1030, 2049}[rapid.IntRange(0, 6).Draw(t, "stressWidth")]
		ev = append(ev, Event{K: "S", Local: name("wideRoot")})
		if !cfg.NoNS || cfg.XMLEverywhere {
			ev = append(ev, Event{K: "N", Local: "xml", Value: XMLNS})
		}
		kid := name("wideKid")
		for i := 0; i < n; i++ {
			ev = append(ev, Event{K: "S", Local: kid})
			xml()
			v := val(i)
			if i >= n-3 {
				v = []string{"7", "x", "1000"}[n-1-i] // the last ones matter
			}
			ev = append(ev, Event{K: "T", Value: v}, Event{K: "E"})
		}
		ev = append(ev, Event{K: "E"})
	default:
		// more bindings in scope than bits in a word (or values in a byte), and overrides of late ones
		n := []int{65, 66, 70, 130, 256, 257, 255, 300}[rapid.IntRange(0, 7).Draw(t, "stressBindings")]
		if cfg.NoNS {
			n = 0
		}
		redeclare := n > 0 && rapid.Bool().Draw(t, "stressRedeclare")
		ev = append(ev, Event{K: "S", Local: name("nsRoot")})
		if n > 0 {
			ev[len(ev)-1].Space = "urn:x" // it declares the default namespace itself
		}
		if !cfg.NoNS || cfg.XMLEverywhere {
			ev = append(ev, Event{K: "N", Local: "xml", Value: XMLNS})
		}
		for i := 0; i < n; i++ {
			ev = append(ev, Event{K: "N", Local: "s" + itoa(i), Value: "urn:s" + itoa(i)})
		}
		if n > 0 {
			ev = append(ev, Event{K: "N", Local: "", Value: "urn:x"})
		}
		for k := 0; k < 3; k++ {
			child := Event{K: "S", Local: name("nsKid")}
			if n > 0 && k != 1 {
				child.Space = "urn:x"
			}
			ev = append(ev, child)
			xml()
			if n > 0 {
				// override an early and a late binding; undeclare the default namespace on the middle child
				ev = append(ev, Event{K: "N", Local: "s3", Value: "urn:over"}, Event{K: "N", Local: "s" + itoa(n-1-k), Value: "urn:late"})
				if k == 1 {
					ev = append(ev, Event{K: "N", Local: "", Value: ""})
				}
				if k == 2 && redeclare {
					// the last child declares every inherited prefix again itself (more own
					// declarations than a byte counts, each one overriding an inherited binding)
					for i := n - 1; i >= 0; i-- {
						if i != 3 && i != n-1-k {
							ev = append(ev, Event{K: "N", Local: "s" + itoa(i), Value: "urn:re" + itoa(i%7)})
						}
					}
				}
			}
			ev = append(ev, Event{K: "S", Local: name("nsGrandKid")})
			if n > 0 && k != 1 {
				ev[len(ev)-1].Space = "urn:x"
			}
			xml()
			ev = append(ev, Event{K: "T", Value: val(k)}, Event{K: "E"}, Event{K: "E"})
		}
		ev = append(ev, Event{K: "E"})
	}
	return ev
}

func itoa(i int) string {
	if i == 0 {
		return "0"
	}
	var b []byte
	for ; i > 0; i /= 10 {
		b = append([]byte{byte('0' + i%10)}, b...)
	}
	return string(b)
}

// WideDoc draws a document with 257-2049 sibling elements (chunk sizes,
// parallel thresholds, per-sibling bookkeeping), for checks whose
// expressions stay cheap on it.
func WideDoc(t *rapid.T, cfg GenCfg) []Event {
	if cfg.Names == nil {
		cfg.Names = DefaultNames
	}
	cfg.stressWide = true
	return genStress(t, cfg)
}
