#!/usr/bin/env python3
"""Copies what a seeding sub-agent left in /tmp/seed/<id>-out into /verif/seeded/<id>-<i>/."""
import json, os, shutil, sys
root, tag = "/tmp/seed", ""
args = sys.argv[1:]
if args and args[0] == "--round2":
    root, tag, args = "/tmp/seed2", "r2", args[1:]
if args and args[0] == "--round3":
    root, tag, args = "/tmp/seed3", "r3", args[1:]
if args and args[0] == "--round4":
    root, tag, args = "/tmp/seed4", "r4", args[1:]
if args and args[0] == "--round5":
    root, tag, args = "/tmp/seed5", "r5", args[1:]
if args and args[0] == "--round6":
    root, tag, args = "/tmp/seed6", "r6", args[1:]
if args and args[0] == "--round8":
    root, tag, args = "/tmp/seed8", "r8", args[1:]
if args and args[0] == "--round9":
    root, tag, args = "/tmp/seed9", "r9", args[1:]
if args and args[0] == "--round7":
    root, tag, args = "/tmp/seed7", "r7", args[1:]
for pid in args:
    src = "%s/%s-out" % (root, pid)
    for i in ("1", "2", "3"):
        p = os.path.join(src, "patch%s.diff" % i)
        if not os.path.exists(p):
            continue
        d = "/verif/seeded/%s-%s%s" % (pid, tag, i)
        os.makedirs(d, exist_ok=True)
        shutil.copy(p, os.path.join(d, "patch.diff"))
        shutil.copy(os.path.join(src, "demo%s_test.go" % i), os.path.join(d, "demo_test.go"))
        notes = os.path.join(src, "notes%s.md" % i)
        if os.path.exists(notes):
            shutil.copy(notes, os.path.join(d, "notes.md"))
        mp = os.path.join(d, "meta.json")
        meta = json.load(open(mp)) if os.path.exists(mp) else {}
        meta.update({"property": pid, "source": "fresh sub-agent given only the property text and a scratch worktree of /repo",
                     "needs": open(notes).read()[:1500] if os.path.exists(notes) else ""})
        json.dump(meta, open(mp, "w"), indent=1)
        print("imported", d)
