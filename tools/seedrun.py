#!/usr/bin/env python3
"""Confirm and evaluate a seeded breakage kept under /verif/seeded/<id>/.

  tools/seedrun.py confirm <dir>   in a scratch worktree: the patched library compiles, the repository's own
                                   suite passes, the demonstration fails with the patch and passes without it
  tools/seedrun.py detect <dir> [--tier quick|thorough] [--props C01,C03]
                                   apply the patch to /repo's working tree, run the check(s), undo the patch
Both print a one-line verdict and update meta.json ("confirmed", "detected_by")."""
import json
import os
import shutil
import subprocess
import sys
import tempfile

VERIF = os.path.dirname(os.path.dirname(os.path.abspath(__file__)))
REPO = os.environ.get("VERIF_REPO", "/repo")  # vp run --with-repo: a snapshot of the repository
ENV = dict(os.environ, GOFLAGS="-mod=mod", GOPROXY="off", GOSUMDB="off", GOTOOLCHAIN="local")


def sh(cmd, cwd=None, timeout=3600):
    p = subprocess.run(cmd, cwd=cwd, env=ENV, shell=isinstance(cmd, str), stdout=subprocess.PIPE,
                       stderr=subprocess.STDOUT, text=True, timeout=timeout)
    return p.returncode, p.stdout


def load_meta(d):
    p = os.path.join(d, "meta.json")
    return json.load(open(p)) if os.path.exists(p) else {}


def save_meta(d, m):
    with open(os.path.join(d, "meta.json"), "w") as f:
        json.dump(m, f, indent=1)
        f.write("\n")


def confirm(d):
    meta = load_meta(d)
    patch = os.path.join(d, "patch.diff")
    demos = [f for f in os.listdir(d) if f.startswith("demo") and f.endswith(".go")]
    wt = tempfile.mkdtemp(prefix="seedconfirm-", dir="/tmp")
    os.rmdir(wt)
    ok, why = True, []
    try:
        rc, out = sh(["git", "-C", "/repo", "worktree", "add", "-q", "--detach", wt, "HEAD"])
        if rc != 0:
            print(out)
            return False
        for f in demos:
            shutil.copy(os.path.join(d, f), os.path.join(wt, f))
        rc, out = sh("go test -count=1 -run 'Seed|Demo|Test' . 2>&1 | tail -5", cwd=wt)
        rc, out = sh("go test -count=1 . 2>&1 | tail -15", cwd=wt)
        if "FAIL" in out or "ok" not in out:
            ok = False
            why.append("demo does not pass WITHOUT the patch: " + out[-400:])
        rc, out = sh(["git", "apply", patch], cwd=wt)
        if rc != 0:
            ok = False
            why.append("patch does not apply: " + out)
        else:
            rc, out = sh("go build ./... 2>&1 | tail -5", cwd=wt)
            if out.strip():
                ok = False
                why.append("patched tree does not build: " + out)
            rc, out = sh("go test -count=1 . 2>&1 | tail -15", cwd=wt)
            if "FAIL" not in out:
                ok = False
                why.append("demo does not fail WITH the patch")
            for f in demos:
                os.remove(os.path.join(wt, f))
            rc, out = sh("go test -vet=off -count=1 ./... 2>&1 | tail -8", cwd=wt)
            if "FAIL" in out:
                ok = False
                why.append("the repository's own suite fails with the patch: " + out[-400:])
    finally:
        sh(["git", "-C", "/repo", "worktree", "remove", "--force", wt])
        shutil.rmtree(wt, ignore_errors=True)
    meta["confirmed"] = ok
    if why:
        meta["confirm_problems"] = why
    else:
        meta.pop("confirm_problems", None)
    save_meta(d, meta)
    print("%s: %s %s" % (os.path.basename(d), "CONFIRMED" if ok else "NOT CONFIRMED", "; ".join(why)[:300]))
    return ok


def detect(d, tier, props):
    meta = load_meta(d)
    props = props or [meta.get("property")]
    rc, out = sh(["git", "-C", REPO, "status", "--porcelain"])
    if out.strip():
        print("refusing: %s working tree is not clean" % REPO)
        return False
    rc, out = sh(["git", "-C", REPO, "apply", os.path.join(d, "patch.diff")])
    if rc != 0:
        print("patch does not apply to %s:" % REPO, out)
        return False
    results = {}
    try:
        for p in props:
            rc, out = sh([os.path.join(VERIF, "check"), p, "--tier", tier], cwd=VERIF, timeout=4 * 3600)
            vio = [l for l in out.splitlines() if l.startswith("VIOLATION ")]
            det = [l for l in out.splitlines() if l.startswith("  detail:")]
            results[p] = {"exit": rc, "violations": len(vio), "first_detail": det[0][:300] if det else ""}
            print("%s: check %s (%s) exit=%d violations=%d %s" % (os.path.basename(d), p, tier, rc, len(vio), det[0][:200] if det else ""))
    finally:
        sh(["git", "-C", REPO, "checkout", "--", "."])
        # replay files produced against the patched tree are not evidence of anything on the real tree
        for p in props:
            shutil.rmtree(os.path.join(VERIF, "replays", p), ignore_errors=True)
    meta.setdefault("detection", {})[tier] = results
    meta["detected_by"] = sorted({p for t in meta["detection"].values() for p, r in t.items() if r["exit"] == 1})
    save_meta(d, meta)
    return any(r["exit"] == 1 for r in results.values())


def main():
    if len(sys.argv) < 3:
        print(__doc__)
        return 2
    cmd, d = sys.argv[1], os.path.abspath(sys.argv[2])
    tier, props = "quick", None
    args = sys.argv[3:]
    while args:
        a = args.pop(0)
        if a == "--tier":
            tier = args.pop(0)
        elif a == "--props":
            props = args.pop(0).split(",")
    if cmd == "confirm":
        return 0 if confirm(d) else 1
    if cmd == "detect":
        return 0 if detect(d, tier, props) else 1
    print(__doc__)
    return 2


if __name__ == "__main__":
    sys.exit(main())
