#!/usr/bin/env python3
"""Deliberate breakages (DESIGN.md, the M lists): each is a textual replacement in /repo's working tree that still
compiles. For every mutant: apply, check that the repository's own suite result is recorded, run the quick check of
the property it should break, restore the tree.  Prints a table; exit 0 when every mutant was detected.

  tools/mutants.py [name-substring ...]
"""
import json
import os
import subprocess
import sys
import shutil

VERIF = os.path.dirname(os.path.dirname(os.path.abspath(__file__)))
REPO = os.environ.get("VERIF_REPO", "/repo")  # vp run --with-repo: a snapshot of the repository
ENV = dict(os.environ, GOFLAGS="-mod=mod", GOPROXY="off", GOSUMDB="off", GOTOOLCHAIN="local")

# (name, property, file, old, new)
M = [
    ("c01-following-stops-early", "C01", "exec/axisselectors.go", "	return appendFollowing(parent, result)", "	return result"),
    ("c01-parent-returns-self", "C01", "exec/axisselectors.go", "			result = append(result, i.Parent())\n", "			result = append(result, i)\n"),
    ("c01-preceding-found-ignored", "C01", "exec/axisselectors.go",
     "		if found {\n			result = append(result, children[i])\n			result = appendDescendant(children[i], result)\n		}",
     "		if found || i == 0 {\n			result = append(result, children[i])\n			result = appendDescendant(children[i], result)\n		}"),
    ("c01-abs-path-from-context", "C01", "exec/contextfn_paths.go", "	context.result = NodeSet{context.root}\n	return execChildren(context, expr)", "	return execChildren(context, expr)"),
    ("c01-principal-type-dropped", "C01", "exec/contextfn_paths.go", "	case node.Attribute:\n		return context.principalNodeType == attributeNodeType", "	case node.Attribute:\n		return true"),
    ("c02-last-constant", "C02", "exec/function.go", "		return Number(c.contextSize), nil", "		return Number(c.contextSize*0 + 2), nil"),
    ("c02-position-zero", "C02", "exec/contextfn_paths.go", "		nextContext.contextPosition = i\n", "		nextContext.contextPosition = 0\n"),
    ("c02-no-backward-reverse", "C02", "exec/axisselectors.go", "func cleanupBackwardAxis(nextResult NodeSet) NodeSet {\n	sort.Sort(backwardSort(nextResult))", "func cleanupBackwardAxis(nextResult NodeSet) NodeSet {\n	sort.Sort(forwardSort(nextResult))"),
    ("c02-numeric-pred-truncated", "C02", "exec/contextfn_paths.go", "			if float64(i+1) == float64(n) {", "			if (i + 1) == int(n) {"),
    ("c02-per-context-dropped", "C02", "exec/contextfn_paths.go", "		if nodeSet, ok := context.result.(NodeSet); ok && len(nodeSet) > 1 {\n			return execStepPerContextNode", "		if nodeSet, ok := context.result.(NodeSet); ok && len(nodeSet) > 2 {\n			return execStepPerContextNode"),
    ("c03-unique-removed", "C03", "exec/axisselectors.go", "		if ret[len(ret)-1].Pos() != s[i].Pos() {\n			ret = append(ret, s[i])\n		}", "		ret = append(ret, s[i])"),
    ("c03-child-no-cleanup", "C03", "exec/axisselectors.go", "		result = append(result, i.Children()...)\n	}\n\n	return cleanupForwardAxis(result)", "		result = append(result, i.Children()...)\n	}\n\n	return NodeSet(result)"),
    ("c03-union-no-sort", "C03", "exec/contextfn.go", "	return unique(cleanupForwardAxis(nextResult))", "	return unique(nextResult)"),
    ("c04-format-g", "C04", "exec/result.go", "	return strconv.FormatFloat(float64(n), 'f', -1, 64)", "	return strconv.FormatFloat(float64(n), 'g', -1, 64)"),
    ("c04-trimspace", "C04", "exec/result.go", "	str = strings.Trim(str, \" \\t\\r\\n\")", "	str = strings.TrimSpace(str)"),
    ("c04-string-bool-false", "C04", "exec/result.go", "func (n String) Bool() bool {\n	return len(n) > 0", "func (n String) Bool() bool {\n	return len(n) > 0 && n != \"false\""),
    ("c04-nodeset-first-is-slice0", "C04", "exec/result.go", "	return GetCursorString(n.first())", "	return GetCursorString(n[0])"),
    ("c04-nested-text-skipped", "C04", "exec/result.go", "		case node.Element:\n			getElementStringValue(buf, n)\n		case node.CharData:", "		case node.CharData:"),
    ("c05-string-less-than", "C05", "exec/contextfn_comparisons.go", "if getStringNumber(GetCursorString(leftNode)) < rightString.Number() {", "if GetCursorString(leftNode) < string(rightString) {"),
    ("c05-empty-nodeset-ne-true", "C05", "exec/contextfn_comparisons.go", "				if GetCursorString(leftNode) != GetCursorString(rightNode) {\n					context.result = Bool(true)\n					return nil\n				}\n			}\n		}\n\n		context.result = Bool(false)", "				if GetCursorString(leftNode) != GetCursorString(rightNode) {\n					context.result = Bool(true)\n					return nil\n				}\n			}\n		}\n\n		context.result = Bool(len(leftNodeSet) == 0)"),
    ("c05-bool-branch-dropped", "C05", "exec/contextfn_comparisons.go", "	if leftBoolOk && rightNodeSetOk {\n		context.result = Bool(bool(leftBool) == rightNodeSet.Bool())\n		return nil\n	}", "	if leftBoolOk && rightNodeSetOk {\n		context.result = Bool(bool(leftBool) == (rightNodeSet.Number() != 0))\n		return nil\n	}"),
    ("c06-mod-int", "C06", "exec/contextfn_numbers.go", "	context.result = Number(math.Mod(left, right))", "	context.result = Number(math.Mod(math.Trunc(left), right))"),
    ("c06-sum-drops-last", "C06", "exec/function.go", "	for _, i := range nodeSet {\n		sum += NodeSet{i}.Number()\n	}", "	for k, i := range nodeSet {\n		if k == 7 {\n			break\n		}\n		sum += NodeSet{i}.Number()\n	}"),
    ("c06-round-math-round", "C06", "exec/function.go", "	if diff > 0.5 || (diff == 0.5 && n >= -0.5) {", "	if diff > 0.5 || (diff == 0.5 && n >= 0.5) {"),
    ("c06-div-zero-nan", "C06", "exec/contextfn_numbers.go", "	context.result = Number(left / right)", "	if right == 0 && left < 0 {\n		context.result = Number(math.Inf(1))\n		return nil\n	}\n\n	context.result = Number(left / right)"),
    ("c07-strlen-bytes", "C07", "exec/function.go", "	return Number(utf8.RuneCountInString(args[0].String())), nil", "	return Number(len(args[0].String())), nil"),
    ("c07-normalize-trim-only", "C07", "exec/function.go", "	return strings.Join(fields, \" \")", "	if len(fields) > 3 {\n		return strings.TrimSpace(str)\n	}\n\n	return strings.Join(fields, \" \")"),
    ("c07-translate-last-occurrence", "C07", "exec/function.go", "				mapped = true\n				break", "				mapped = true"),
    ("c07-substring-off-by-one", "C07", "exec/function.go", "		if pos >= begin && pos < end {", "		if pos > begin && pos < end {"),
    ("c08-subtract-is-add", "C08", "exec/contextfn_numbers.go", "	contextFunctions[symbols.NT_AdditiveExprSubtract] = execAdditiveExprSubtract", "	contextFunctions[symbols.NT_AdditiveExprSubtract] = execAdditiveExprAdd"),
    ("c08-lte-is-lt", "C08", "exec/contextfn_comparisons.go", "	contextFunctions[symbols.NT_RelationalExprLessThanOrEqual] = execRelationalExprLessThanOrEqual", "	contextFunctions[symbols.NT_RelationalExprLessThanOrEqual] = execRelationalExprLessThan"),
    ("c08-filter-path-dropped", "C08", "exec/contextfn_paths.go", "	contextFunctions[symbols.NT_PathExprFilterWithAbbreviatedPath] = execAbbreviatedRelativeLocationPath\n", ""),
    ("c09-namespaces-after-attrs", "C09", "parser/xml.go", "		if i.Name.Space == xmlns {\n			// xmlns:prefix", "		if i.Name.Space == xmlns && i.Name.Local != \"q\" {\n			// xmlns:prefix"),
    ("c09-xmlns-attr-kept", "C09", "parser/xml.go", "		if i.Name.Space == xmlns || i.Name.Local == xmlns {\n			continue\n		}", "		if i.Name.Local == xmlns {\n			continue\n		}"),
    ("c09-error-swallowed", "C09", "parser/xml.go", "	if err != nil {\n		return nil, false, err\n	}\n\n	switch n := tok.(type) {", "	if err != nil {\n		if x.depth > 2 {\n			return nil, false, io.EOF\n		}\n\n		return nil, false, err\n	}\n\n	switch n := tok.(type) {"),
    ("c09-no-charset-reader", "C09", "parser/xml.go", "	xmlReader.CharsetReader = charset.NewReaderLabel\n", "	xmlReader.CharsetReader = func(label string, input io.Reader) (io.Reader, error) {\n		if label == \"koi8-r\" || label == \"KOI8-R\" {\n			return input, nil\n		}\n		return charset.NewReaderLabel(label, input)\n	}\n"),
    ("c10-comment-pos-not-incremented", "C10", "store/inmemory.go", "		default:\n			pos = inheritNamespaces(cursor, pos)\n			pos++", "		default:\n			pos = inheritNamespaces(cursor, pos)\n			if _, isComment := v.(node.Comment); !isComment {\n				pos++\n			}"),
    ("c10-share-inherited-cursor", "C10", "store/inmemory.go", "			cursor.namespaces = append(cursor.namespaces, createNonElement(inherited, cursor, pos))", "			cursor.namespaces = append(cursor.namespaces, p)"),
    ("c10-parser-error-ignored", "C10", "store/inmemory.go", "		if err != nil {\n			return err\n		}\n\n		if isEnd {", "		if err != nil {\n			return nil\n		}\n\n		if isEnd {"),
    ("c11-builtins-first", "C11", "exec/contextfn.go", "	fn := context.FunctionLibrary[qname]\n\n	if fn == nil {\n		fn = context.builtinFunctions[qname]\n	}", "	fn := context.builtinFunctions[qname]\n\n	if fn == nil {\n		fn = context.FunctionLibrary[qname]\n	}"),
    ("c11-unbound-prefix-ignored", "C11", "exec/contextfn_paths.go", "	namespaceValue, ok := context.NamespaceDecls[namespaceLookup]\n\n	if !ok {\n		return fmt.Errorf(\"unknown namespace binding '%s'\", namespaceLookup)\n	}\n\n	nodeSet, ok := context.result.(NodeSet)\n\n	if !ok {\n		return nil\n	}\n\n	result := make(NodeSet, 0)\n\n	for _, i := range nodeSet {\n		if node, ok := i.Node().(node.NamedNode); ok && isPrincipalNodeType(context, i) {\n			if node.Local() == local", "	namespaceValue := context.NamespaceDecls[namespaceLookup]\n\n	nodeSet, ok := context.result.(NodeSet)\n\n	if !ok {\n		return nil\n	}\n\n	result := make(NodeSet, 0)\n\n	for _, i := range nodeSet {\n		if node, ok := i.Node().(node.NamedNode); ok && isPrincipalNodeType(context, i) {\n			if node.Local() == local"),
    ("c11-args-reversed", "C11", "exec/contextfn.go", "		args = append(args, nextContext.result)\n", "		args = append([]Result{nextContext.result}, args...)\n"),
    ("c12-name-last-node", "C12", "exec/function.go", "	firstNode := nodeSet.first()", "	firstNode := nodeSet[len(nodeSet)-1]"),
    ("c12-lang-case-sensitive", "C12", "exec/function.go", "	src := asciiLower(srcStr)\n	targ := asciiLower(targStr)", "	src := srcStr\n	targ := targStr"),
    ("c12-lang-no-hyphen-boundary", "C12", "exec/function.go", "strings.HasPrefix(targ, src+\"-\"))", "strings.HasPrefix(targ, src))"),
    ("c13-sort-caller-slice", "C13", "exec/contextfn_paths.go", "		sorted := make(NodeSet, len(nodeSet))\n		copy(sorted, nodeSet)\n		context.result = cleanupForwardAxis(sorted)", "		context.result = cleanupForwardAxis(nodeSet)"),
    ("c16-eof-in-container-ok", "C16", "parser/json.go", "	if err == io.EOF && len(j.stateStack) > 0 {", "	if err == io.EOF && len(j.stateStack) > 2 {"),
    ("c16-number-format-f", "C16", "parser/json.go", "		str := strconv.FormatFloat(t, 'g', -1, 64)", "		str := strconv.FormatFloat(t, 'g', 15, 64)"),
    ("c17-comments-dropped-after-html", "C17", "parser/html.go", "	case html.CommentNode:\n		x.nodeEmitted = true", "	case html.CommentNode:\n		x.nodeEmitted = true\n		if x.node.Parent != nil && x.node.Parent.Type == html.DocumentNode {\n			return x.Pull()\n		}"),
    ("c18-seed-with-parent", "C18", "exec/exec.go", "		contextSize:      1,", "		contextSize:      2,"),
    ("c19-slice-reversed", "C19", "exec/unmarshal.go", "		field.Set(reflect.Append(field, ptrVal))", "		field.Set(reflect.AppendSlice(reflect.Append(reflect.MakeSlice(field.Type(), 0, 1), ptrVal), field))"),
    ("c19-uint16-via-uint8", "C19", "exec/unmarshal.go", "		return reflect.ValueOf(uint16(result.Number())), true", "		return reflect.ValueOf(uint16(uint8(result.Number()))), true"),
    ("c20-prefix-without-space", "C20", "xsel/xsel.go", "		fmt.Fprintf(buffer, \"%s: %s\\n\", path, result.String())", "		fmt.Fprintf(buffer, \"%s:%s\\n\", path, result.String())"),
    ("c20-a-first-only-for-attrs", "C20", "xsel/xsel.go", "		for _, node := range nodeSet {\n			writeResult(&buffer, path, xsel.NodeSet{node})\n		}", "		for k, node := range nodeSet {\n			if k >= 5 {\n				break\n			}\n			writeResult(&buffer, path, xsel.NodeSet{node})\n		}"),
    ("c14-cli-print-per-record", "C14", "xsel/xsel.go", "		for _, node := range nodeSet {\n			writeResult(&buffer, path, xsel.NodeSet{node})\n		}", "		for _, node := range nodeSet {\n			writeResult(&buffer, path, xsel.NodeSet{node})\n			fmt.Print(buffer.String())\n			buffer.Reset()\n		}"),
    ("c15-recover-removed-substring", "C15", "exec/function.go", "	str := []rune(args[0].String())\n	begin := getRound(args[1].Number())", "	str := []rune(args[0].String())\n	begin := getRound(args[1].Number())\n	if begin > 1e18 {\n		_ = str[int(begin)]\n	}"),
]


def sh(cmd, cwd=None, timeout=3600):
    p = subprocess.run(cmd, cwd=cwd, env=ENV, shell=isinstance(cmd, str), stdout=subprocess.PIPE,
                       stderr=subprocess.STDOUT, text=True, timeout=timeout)
    return p.returncode, p.stdout


def main():
    want = sys.argv[1:]
    rc, out = sh(["git", "-C", REPO, "status", "--porcelain"])
    if out.strip():
        print("refusing: %s working tree is not clean" % REPO)
        return 2
    rows = []
    missed = 0
    for name, prop, f, old, new in M:
        if want and not any(w in name or w == prop for w in want):
            continue
        path = os.path.join(REPO, f)
        src = open(path).read()
        if src.count(old) != 1:
            rows.append((name, prop, "PATCH-DOES-NOT-APPLY (%d matches)" % src.count(old), ""))
            continue
        try:
            open(path, "w").write(src.replace(old, new))
            rc, out = sh("go build ./... 2>&1 | tail -3", cwd=REPO)
            if out.strip():
                rows.append((name, prop, "DOES-NOT-COMPILE", out.strip()[:120]))
                continue
            rc, out = sh("go test -vet=off -count=1 ./... 2>&1 | grep -c FAIL", cwd=REPO)
            suite = "suite-passes" if out.strip() == "0" else "suite-FAILS"
            rc, out = sh([os.path.join(VERIF, "check"), prop, "--tier", "quick"], cwd=VERIF)
            det = [l for l in out.splitlines() if l.startswith("  detail:")]
            verdict = {0: "MISSED", 1: "detected", 2: "INFRA(exit 2)"}.get(rc, "exit %d" % rc)
            if rc != 1:
                missed += 1
            rows.append((name, prop, verdict + " " + suite, det[0][10:150] if det else ""))
        finally:
            sh(["git", "-C", REPO, "checkout", "--", "."])
            shutil.rmtree(os.path.join(VERIF, "replays", prop), ignore_errors=True)
        print("%-36s %s %-28s %s" % rows[-1], flush=True)
    json.dump(rows, open(os.path.join(VERIF, "tools", "mutants_last.json" if want else "mutants_all.json"), "w"), indent=1)
    return 0 if missed == 0 else 1


if __name__ == "__main__":
    sys.exit(main())
