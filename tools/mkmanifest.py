#!/usr/bin/env python3
"""Regenerates /verif/MANIFEST.json and /verif/harness/rules.json from one table,
so that claimed checks, not_applicable and the evidence rules never drift."""
import json
import os

VERIF = os.path.dirname(os.path.dirname(os.path.abspath(__file__)))

# id -> dict(built, technique, text, note, design, rule, assumptions)
P = {}


def prop(pid, built, technique, text, note, design, rule, assumptions=()):
    P[pid] = dict(built=built, technique=technique, text=text, note=note, design=design, rule=rule,
                  assumptions=list(assumptions))


COMMON_ASSUME = [
    "the harness's reference evaluator xref (written from XPath 1.0, no code shared with xsel) is the oracle; "
    "implementation-only laws back it where stated",
    "generated search explores a sample of the input space: absence of violations is not established",
]

prop("C10", True,
     "property-based testing (rapid): generated Parser event streams vs. a reference tree builder + Cursor-contract invariants; child process under a stack cap for the depth-bounded-stack clause",
     "Generated search: contract-conforming event streams (nesting, prefix rebinding and override, surplus end events, parser errors) are replayed through a scripted parser.Parser into store.CreateInMemory; the resulting tree is walked in parallel with the harness's own model of the stream (structure, values, in-scope namespace sets per element; occasionally one element with 33-40 children, 3-15 attributes or 5-13 further namespace declarations next to a default namespace and its undeclaration) and the Cursor contract is asserted over a full traversal (Pos unique/increasing in document order, Parent() of every listed cursor, namespace cursors owned per element). The scripted Parser's node types are not comparable (a == on them panics) and the xml prefix may be declared twice on one element. Large flat streams are built in a child process whose goroutine stack is capped.",
     "Trusts the harness's event-stream model (xmodel.Build) as the meaning of the documented Parser contract; the stack clause is decided for the stated (events, depth) grid only.",
     "5.10",
     "cases = rapid-generated event streams (documents of depth <= 5 with namespaces, attributes, comments, PIs, adjacent text, forests; optional surplus top-level end events; optional parser error at a drawn position). Non-trivial = the stream has an inherited prefix overridden further down, or a surplus end event, or >= 3 levels of nesting; distinct by the full event list.",
     ["the scripted Parser obeys the documented Parser contract (namespaces, then attributes, then children; balanced ends apart from generated surplus ends at top level)"])

EVAL_NOTE = ("Trusts the harness's reference evaluator xref (XPath 1.0 sections 2-4 written from the recommendation over the "
             "harness's own document model; no code shared with xsel; it evaluates generated ASTs, never expression text) and "
             "the locator's structural node identity. Open known findings exclude exactly the named behaviour. One differential "
             "case in three also goes through the ExecAsString/ExecAsNumber/ExecAsNodeset helpers, which must equal the XPath "
             "conversions of the same result; one in four passes the bindings as caller-owned maps through a ContextApply of its own "
             "(the maps must be unchanged afterwards); one in seven (without node-set variables, documents of <= 60 nodes) starts from a "
             "user-written Cursor over the same tree (fresh objects per call, an uncomparable value type, or positions beyond 32 bits); "
             "one in eleven is preceded by another query that binds user functions under every core function's name, a prefix and a "
             "variable, one in five by a rejected BuildExpr. One document in 100 is a size-stress document (a chain 33-130 elements deep "
             "or 65-257 namespace bindings in scope with late overrides).")

prop("C01", True,
     "property-based testing (rapid): differential against a reference XPath evaluator over generated documents x every context node x all 13 axes, plus implementation-only partition/duality/root laws",
     "Generated search: for generated documents (all node kinds, namespaces, top-level comments/PIs/text, forests) every node of every kind is used as context node for steps over all 13 axes and node tests (abbreviated and unabbreviated), multi-step paths, absolute paths inside predicates/arguments and guided walks (each step chosen among drawn candidates so that it selects something; started from the root, an inner node, a mixed-kind node-set variable holding elements next to their own attribute and namespace nodes, or a parenthesised union; '..' after attribute and namespace steps); the selected node-set is compared node by node with the reference evaluator. Independently of the reference, the partition law (ancestor/descendant/following/preceding/self), the duality of axis pairs and the root laws are checked on the implementation alone.",
     EVAL_NOTE + " Name tests on the namespace axis and absolute paths in queries started at an inner cursor are outside the property and never judged.",
     "5.1",
     "cases = (generated document, context node, axis::test step) and multi-step / absolute-in-predicate paths from the root and guided walks. Non-trivial = expected node-set non-empty or context node not an element (steps), expected result non-empty (paths), documents with >= 4 tree nodes (laws); distinct by (document size, context kind and position shape, axis, test kind) resp. by (expression, document).")
prop("C02", True,
     "property-based testing (rapid): differential against the reference evaluator for predicate-bearing paths and filter expressions, plus metamorphic identities on the implementation",
     "Generated search: paths whose steps carry 1-3 predicates (positional, fractional, last()-based, boolean, node-set, string, nested) over forward and reverse axes after steps that select several context nodes, and filter expressions (E)[p], $v[p], f()[p] with continued paths, compared with the reference (per-context-node evaluation, proximity positions, true context size, document-order numbering of filter expressions). Metamorphic identities on the implementation alone: P[n] = P[position()=n], P[last()] = P[position()=last()], P[n.5] = empty, (E)[1] = document-first node, per-parent counts of //x[position() <= k].",
     EVAL_NOTE, "5.2",
     "cases = (document, predicate-bearing path or filter expression, bindings). Non-trivial = a predicate saw >= 2 candidates after a step with >= 2 context nodes, or sits on a reverse axis, or its numeric value is non-integral/NaN, or a path continues after a filter expression; distinct by (expression text, document).")
prop("C03", True,
     "property-based testing (rapid): validity predicate on returned node-set slices + union algebra between separately executed queries",
     "Generated search: overlapping and direction-mixing node-set expressions (//x/.., ancestor::*/@*, reverse axis feeding forward/attribute/namespace steps, unions; guided walks with predicates from mixed-kind node-set variables and parenthesised unions; name tests on the namespace axis; a user function returning the parents of its context nodes as the last step) from drawn context nodes; every returned slice is checked to contain only nodes of the queried document, no node twice, strictly monotone document order (ascending without reverse axis and for unions); A|B = B|A, (A|B)|C = A|(B|C), A|A = A and count(A|B) = count(A)+count(B)-common and ((((A|B)|C)|A)|C)|B = (A|B)|C are checked between separately executed queries. The slice predicate is additionally applied to every node-set any other check obtains.",
     "Node identity is the locator's structural bijection, not Pos(). Order among one element's attributes/namespace nodes follows the store's list order; caller-ordered variables are not required to come back sorted.",
     "5.3",
     "cases = (document, context node, three node-set expressions A, B, C). Non-trivial = operands overlap, or a step produced duplicate candidates, or a reverse axis feeds a further step; distinct by (A, B, C, context node, document).")
prop("C04", True,
     "property-based testing (rapid): differential of conversions against the reference (grammar-based string->number, shortest round-tripping number->string) + round-trip oracle + GetCursorString on every node",
     "Generated search: doubles (rapid.Float64 mixed with a boundary pool), strings (numeral grammar and its near misses, arbitrary Unicode) and node-sets of every kind and order are converted explicitly (string/number/boolean), implicitly (operands of arithmetic, relational and boolean operators, every argument position of the core library functions, predicates) and through the returned Result's String()/Number()/Bool() and the ExecAs* helpers; results are compared with the reference conversions, number(string(x)) = x is checked, and xsel.GetCursorString is compared with the model's string-value for every node of generated documents.",
     EVAL_NOTE, "5.4",
     "cases = (source value, conversion site). Non-trivial = the source is in one of the named value classes other than plain integers/plain strings (negative zero, NaN, infinities, subnormal, >2^63, <1e-7, whitespace-padded numeral, exponent/plus/hex/Infinity/NaN-looking strings, empty/reverse-ordered/mixed-content node-sets, every node kind); distinct by (class, conversion, expected value).")
prop("C05", True,
     "property-based testing: bounded-exhaustive operand-pool matrix (enumerated) + rapid-generated random operands, differential against the reference and operator symmetries on the implementation",
     "All ordered pairs of a pool of 52 operands (12 numbers, 12 strings, 2 booleans, 26 node-sets over a pool document) x 6 operators are enumerated completely and compared with XPath 1.0 section 3.4; for each pair L op R = R mirror(op) L and, for non-node-sets, L != R = not(L = R) are checked on the implementation alone. In addition rapid draws random operands (numbers and strings through variables, node-sets as paths and as variables over generated documents).",
     EVAL_NOTE, "5.5",
     "cases = (left operand, operator, right operand). Non-trivial = an operand is a node-set of size != 1, a NaN, a whitespace-padded numeral, or the pair orders differently numerically and lexicographically; distinct by (operator, both operand values). The matrix part is exhaustive over the stated pool (noted in evidence), the random part is sampled.")
prop("C06", True,
     "property-based testing (rapid): differential of arithmetic and numeric functions against IEEE-754 reference arithmetic; any error is a violation",
     "Generated search: pairs of doubles (rapid.Float64 mixed with a boundary pool: non-integers, negatives, zeros, |x|<1, |x|>2^63, ties, NaN, infinities) under + - * div mod, unary minus chains, floor/ceiling/round, compound expressions, literal operand forms, node-set, boolean and string operands of the binary operators and of unary minus (node-sets delivered by reverse axes, ancestor steps and caller-ordered variables; boolean functions, variables and comparisons; numeric and non-numeric strings) (number() of a node-set is that of its first node in document order), and sum()/count() over nodes with fractional, negative, padded, non-numeric and out-of-range (+-Infinity, underflowing) numerals (also delivered by a reverse axis; occasionally 255-2049 nodes whose last ones decide the sum; element text split around comments and processing instructions; numerals with 40-60 digits); results compared NaN-aware with Go float64 arithmetic (math.Mod for mod). Any error from these operations is a violation.",
     EVAL_NOTE + " Sums whose terms are not exactly representable are discarded (addition order is not fixed by the property). The sign of a zero result is only observed through a literal zero divisor.",
     "5.6",
     "cases = (operation, operand values). Non-trivial = an operand is not an integer-valued finite double (fraction, huge, zero, NaN, infinity) or a rounding tie; distinct by (operation class, operand values).")
prop("C07", True,
     "property-based testing (rapid): differential of the string functions against a rune-based reference + UTF-8 validity + substring-before/after identity",
     "Generated search: Unicode strings (ASCII, 2/3/4-byte characters, combining marks, XML and non-XML whitespace, empty, 33-300 characters long) and numeric bounds (fractions, negatives, NaN, infinities, huge, the doubles next to .5 and the odd integers above 2^52) bound to variables or written as literals are fed to substring (2 and 3 arguments), string-length, normalize-space, translate (overlapping, repeated, shorter/longer maps), concat (2-14 arguments), starts-with, contains, substring-before/after and the zero-argument forms from context nodes of every kind (element, attribute, text, comment, processing instruction, namespace, root); results are compared with the reference working on code points and IEEE comparisons.",
     EVAL_NOTE, "5.7",
     "cases = (function, argument values). Non-trivial = an argument has a multi-byte character, or the translate map overlaps/repeats/differs in length, or there are inner whitespace runs, or a bound is non-integral/NaN/infinite; distinct by (function, arguments).")
prop("C08", True,
     "property-based testing (rapid) + native coverage-guided fuzzing (FuzzC08, thorough tier): typed ASTs rendered under five styles and evaluated against the AST's reference value; invalid-by-construction mutations must be rejected; arbitrary strings judged by an independent strict/lenient recogniser sandwich with reference evaluation of the strictly valid ones",
     "Generated search: operator-heavy typed ASTs (all binary operators over operands of all types, same- and mixed-precedence chains, unary minus chains, unions, keyword-spelled names, names with '-', '.', digits) are rendered with minimal parentheses, redundant parentheses, arbitrary legal white space, abbreviated steps and all three combined, occasionally inside 60-150 pairs of parentheses; every rendering must compile and evaluate to the reference value of the AST on a generated document with distinguishable operands (so wrong precedence, associativity, token boundaries or dropped sub-expressions change the value). Token-level mutations that cannot yield an XPath expression (16 families: invisible non-white-space characters (byte order mark, zero-width space, soft hyphen, NUL) before or after the expression; unbalanced brackets, dangling/leading/doubled/stray operators, empty predicates/parentheses, junk suffixes, illegal characters, '$ name', bad axes, missing/doubled commas, a comma next to a parenthesis of an argument list, numbers, unterminated literals) must make BuildExpr return an error. Token soup, damaged expressions and (thorough) coverage-guided fuzz inputs are judged by the harness's own recursive-descent parser in two modes: strictly valid => accepted, and evaluated to the parsed AST's reference value when the reference can evaluate it; accepted => leniently valid.",
     EVAL_NOTE + " The grammar-level known findings (see known_findings.json) are excluded by construction, by the counted '/*' feature test, or fall between the strict and the lenient recogniser (counted, not judged).",
     "5.8",
     "cases = (AST, five renderings, document), mutated strings and arbitrary strings (sandwich). Non-trivial positives = >= 2 binary operators of different precedence or >= 2 of the same, or a keyword-spelled name, or a minus adjacent to a name; negatives: every mutated string; distinct by text.")
prop("C09", True,
     "property-based testing (rapid): abstract documents serialised under generated choices, parsed by ReadXml and walked in parallel with the model; targeted malformations must return an error",
     "Generated search: abstract documents are rendered as XML text under drawn serialisation choices (prefixes, default namespace with undeclaration and rebinding, declaration order, quote style, character/entity references, text split into up to four plain/CDATA pieces with empty CDATA sections before, between and after them, XML declaration with UTF-8 and five 8-bit/ASCII charsets encoded with x/text/charmap, DOCTYPE, prolog/epilog comments and PIs, top-level white space, empty-tag forms); the cursor tree must equal the model (elements, attributes without declarations, merged text, comments, PIs, one namespace node per in-scope binding incl. xml, each owned by its element). A quarter of the documents are read just after a malformed one (a failing call must not change the next), and every document reaches ReadXml through one of seven io.Readers chosen by its content (seekable at offset 0 or behind a foreign prefix, data returned together with io.EOF, one byte or half the buffer per Read, no optional methods). Eight families of malformation (mismatched/missing end tag, truncation, undefined entity, invalid character/encoding, unquoted attribute, unknown charset, doubled '<') must yield a non-nil error.",
     "Inputs stay inside what encoding/xml is documented to handle (no internal DTD subset, no literal tab/newline in attribute values, no unbound prefixes). Only error classes encoding/xml detects are demanded.",
     "5.9",
     "cases = (abstract document, serialisation) and malformed byte strings. Non-trivial = the document declares a prefix or default namespace and its serialisation uses at least one of CDATA, a reference, a non-UTF-8 encoding, an XML declaration, a DOCTYPE, a prolog/epilog node, default-namespace undeclaration, or overrides an inherited prefix; distinct by the serialised bytes.")
prop("C11", True,
     "property-based testing (rapid): differential under generated binding environments, prefix-renaming metamorphic relation, instrumented user functions, unbound-reference errors",
     "Generated search: binding environments (aliases, prefixes colliding with the document's, prefixes spelling axis names, namespaced variables reachable through two prefixes) x expressions with prefixed name tests, variables and calls are compared with the reference given the same environment; consistently renaming query prefixes and rebuilding the document with different prefixes must not change results; $v must return exactly the bound value (type, content, order) for all four types; an instrumented user function - also when registered under a builtin's name - must be called once per context node with the evaluated arguments in order, Context.Result() the one-node node-set and ContextPosition() the 0-based index; evaluated references to unbound prefixes, variables and functions must fail - the same bindings given to Unmarshal must reach a struct tag that calls the function; variables whose local name is spelled like their prefix ($x:x, $child:child); also near misses: a core function's local name behind a bound prefix, a function or variable bound under another expanded name than the one referenced.",
     EVAL_NOTE, "5.11",
     "cases = (environment, expression, document). Non-trivial = a prefixed name test or namespaced variable is used (diff), every renaming case, every typed variable case, functions that are namespaced or shadow a builtin, every unbound-reference form; distinct by (expression, environment, document).")
prop("C12", True,
     "property-based testing (rapid): differential of name()/local-name()/namespace-uri()/count()/lang() against the reference from every context node",
     "Generated search: every node of every kind as context node x the three name functions without argument, with node-set variables, reverse-axis arguments and generated paths, count() of node-sets and of non-node-sets (error required); lang(L) from every node of documents whose xml:lang attributes come from a tag grammar (equal, case-different, equal only under Unicode case folding - which must not match -, prefix-with-hyphen, prefix-without-hyphen, empty, unrelated; overridden and reset deeper down; a no-namespace 'lang' decoy and 'lang' attributes of other namespaces before and after the real one). Document namespaces include a URI pair whose concatenations with local names collide ({urn:x}a-b vs {urn:xa-}b).",
     EVAL_NOTE, "5.12",
     "cases = (document, context node, call). Non-trivial = context node is not a no-namespace element, or the result is a {uri}local name, or an error is required; for lang: every (declared tag, queried tag, context kind) relation; distinct by those tuples.")
prop("C13", True,
     "stateful property-based testing (rapid): generated histories of Exec/re-Exec/sub-slice/rebuild/Unmarshal/caller-side edits over shared trees (two documents), compiled expressions, binding maps and aliased slices, with snapshot invariants after every step",
     "Generated search: histories of 4-25 operations over one or two documents (the second one of the same shape with other values, or unrelated), 3-6 reused compiled expressions (unions, paths, self steps and predicates over $v/$w, absolute paths inside predicates that depend on variables, prefixed variables and name tests) and bindings that vary between the operations (two namespace maps with the prefixes swapped, two sets of variable values, a prefix bound for one query only; passed either as caller-owned maps or through the With* option functions only); results are held as caller slices, sub-sliced with spare capacity, bound again as $v and $w (also the same slice twice). After every step the harness compares a deep snapshot of the tree (pointer identity, Pos, kind, names, values, list sizes, parents), every held slice including its backing array up to cap, and the binding maps; re-executions and freshly rebuilt expressions must reproduce the recorded result exactly, a namespaced variable must have the value bound under the query's own bindings, and a prefix bound only for an earlier query must be unbound. A user function hands out a node-set the caller still holds (h:held()[1], h:held() | //a), rejected compilations happen in between, held results are kept as caller-ordered copies with spare capacity. The caller also edits result slices it holds (reverse, in-place filter, overwrite): later queries must not notice; expressions that render names (name() of namespaced nodes while two prefixes are bound to one URI) or use the implicit xml prefix run on caller-owned maps; and Unmarshal into four distinct struct types that share their name and field names must fill each from its own tags whatever was unmarshaled before.",
     "Results are compared by value and node identity, not by slice identity (returning the caller's slice unchanged is allowed).",
     "5.13",
     "cases = histories. Non-trivial = the history re-executes an earlier triple after other queries ran and some query bound a held slice as $v/$w; distinct by (expressions, operations, document).")
prop("C16", True,
     "property-based testing (rapid): JSON values mapped directly to the documented tree and compared by parallel walk; truncations and token mutations must return an error",
     "Generated search: JSON values (objects with duplicate/empty/odd keys, arrays, nested containers up to depth 9 and occasionally wrapped in 60-140 further containers with members following the deep one, empty containers, strings and keys that spell structural characters ('{', ']', ',') or look like qualified names, attributes or node tests ('dc:title', 'xmlns:p', '@id', 'text()'), strings with escapes and surrogate pairs, numerals incl. -0, exponents, >2^63, subnormal; 1-3 top-level values) rendered with drawn whitespace and escape spellings; the cursor tree must equal the README mapping computed from the value (not from the text): #obj/#arr, member elements in source order, one text node per scalar, siblings never merged; number texts must read back to the same double with minimal digits. Strict prefixes, dropped structural characters and junk insertions that make the text invalid must yield a non-nil error. Texts reach ReadJson through seven kinds of io.Reader (see C09), a quarter of them right after a malformed text.",
     "encoding/json's json.Valid / Decoder are used only to discard mutations that happen to stay valid.",
     "5.16",
     "cases = (JSON value(s), rendering) and malformed texts. Non-trivial = depth >= 3 with both container kinds, or an empty container after a key, or a scalar following a container among siblings; malformed: every text; distinct by text.")
prop("C17", True,
     "property-based testing (rapid): generated tag soup parsed by ReadHtml and compared with an independent recursion over html.Parse's DOM",
     "Generated search: a doctype followed by random open/close/stray-close tags over a vocabulary chosen to trigger the tree builder's special cases (tables, select, template, script/style/textarea/title, void elements, svg/math/foreignObject, prefixed tag names), text (with character references incl. referenced carriage returns, NUL and out-of-range references), comments (also after </body>/</html>), attributes incl. duplicates, xmlns, xmlns:x, x:y and foreign-content attributes; documents reach ReadHtml through seven kinds of io.Reader (see C09), a quarter right after another document; the cursor tree must equal the harness's own plain walk of html.Parse's DOM (local names, attributes minus xmlns declarations with prefixes stripped, text, comments, everything in no namespace).",
     "golang.org/x/net/html (the version /repo's go.mod pins) defines the expected DOM; names with more than one colon are discarded.",
     "5.17",
     "cases = HTML texts. Non-trivial = the DOM has >= 8 nodes and at least one of: childless last child, sibling after a depth >= 3 subtree, node after </html>, implied elements, foreign content, template; distinct by text.")
prop("C18", True,
     "property-based testing (rapid): differential of relative expressions from every node kind (position 1, size 1) + composition law P/R = union of R from each node of P + P/f() = f(P), on the implementation",
     "Generated search: every node of every kind as starting cursor x relative expressions (all axes incl. those leaving the subtree, predicates, position(), last(), context-dependent functions) compared with the reference evaluated with that context node, position 1, size 1; for independently drawn absolute P and relative R (also split at a '//', written with and without abbreviations) the node-set of P/R from the root must equal the union over n in Exec(root,P) of Exec(n,R); P/f() must equal f(P) for the seven context-dependent builtins; Unmarshal into slices of structs whose tags use position(), last(), name(..), sibling/ancestor counts must give every element the values Exec gives from that element's node.",
     EVAL_NOTE, "5.18",
     "cases = (document, start node, relative expression) and (document, P, R[, f]). Non-trivial = start node is not an element or an axis leaves its subtree; composition: P selects >= 2 nodes and R carries a predicate; distinct by (start kind and shape, expression) resp. (P/R text, document).")

prop("C14", True,
     "property-based stress testing (rapid) under the Go race detector: generated concurrent Exec programs on shared tree/expressions/bindings vs. their serial results; concurrent Unmarshal into struct types nobody used before; race-built CLI -c N vs. per-file blocks",
     "Generated search: one document, 2-6 compiled expressions (weighted toward unions, paths and predicates over a shared node-set variable bound in caller order), one shared set of binding maps; 2-16 goroutines released by a barrier each run a drawn program of Exec calls for 1-4 rounds (half of the cases on freshly built expressions that were never executed serially; the expression pool calls every builtin with differing arguments and holds deeply nested and very long expressions); every concurrent result must equal the serial result computed beforehand; 2-16 goroutines Unmarshal the same nodes into a struct type created for the case (reflect.StructOf, 1-9 tagged fields, so anything kept per type is cold) and must get what the serial calls made afterwards get, and the test binary is built with -race (GORACE=halt_on_error: the first report ends the shard and the running case becomes the replay file). Two to twelve goroutines parse 2-8 XML/HTML/JSON documents (some malformed) at once and must get the trees they get alone. Half of the library cases use a copy of the document that no query has touched (lazily built state in the tree). CLI: the race-built command, with -u, -e, -s, -v, -t in the mix, runs over trees of 1-3 files (fewer than workers) or over generated trees of 10-60 XML/JSON/HTML files (some malformed) plus 2-5 files whose output block is tens of kilobytes, with -c 2/4/16; stdout must be a sequence of exactly the per-file blocks (each obtained by running the tool on that file alone), intact and contiguous, in any order.",
     "Coverage of interleavings is probabilistic: this family does not own the Go scheduler. The race detector flags unsynchronised conflicting accesses that execute in a run whether or not the bad interleaving happens. A failing schedule is not replayable as such; the replay re-runs the case 100 times under -race.",
     "5.14",
     "cases = concurrent programs (document, expressions, shared $v, goroutines x operations x rounds) and CLI file trees. Non-trivial = >= 2 goroutines execute an expression over the shared node-set variable of >= 2 nodes; CLI: >= 8 files with -a or -m (multi-line blocks); distinct by (expressions, shared variable, goroutine count, document) resp. (flags, tree).")
prop("C15", True,
     "property-based testing (rapid) + native coverage-guided fuzzing (go test -fuzz, thorough tier): recover-wrapped entry points over valid, mutated and raw expressions and documents",
     "Generated search: expression strings from six sources (rendered typed ASTs, ill-typed ASTs, invalid-by-construction token mutations, token soup, raw Unicode, every string function over a variable holding arbitrary - also invalid UTF-8 - bytes with boundary positions) with boundary-value numeric and Unicode variables, nil variable values and hostile constants, executed from the root, an element and an attribute of a fixed or generated document and from three user-written Cursor types over it; ReadXml also runs with seven decoder option variants (Strict off, CharsetReader nil/failing/identity, entities, AutoClose, DefaultSpace); Unmarshal also into same-named struct types with different numbers of fields; documents from three sources (valid XML/JSON/HTML serialisations, byte-level mutations, raw bytes) through ReadXml/ReadHtml/ReadJson. Every call runs under recover and a generous deadline: a panic, a nil result with a nil error, an unusable tree/result, an 'xpath query panic' error on a well-typed query, or a call that does not terminate twice within 60 s is a violation. Unmarshal is driven with thirty kinds of unsupported target (error, never a panic). Thorough adds five native fuzz targets (FuzzExpr, FuzzXml, FuzzHtml, FuzzJson, FuzzPair) with the same oracle inside the target.",
     "Process aborts (fatal errors, stack exhaustion) are seen as a shard dying without a report (exit 2 with the log). Inputs are limited to 64 KiB (documents) and 512 bytes (expressions: parse time grows quadratically with nesting depth, and the fuzzing engine kills a worker whose input runs for 10 s) in the fuzz targets.",
     "5.15",
     "cases = inputs to BuildExpr/Exec/Read*. Non-trivial = expression of >= 3 tokens or document of >= 8 bytes; distinct by input (and variable values).")
prop("C19", True,
     "property-based testing (rapid): target types built at run time with reflect.StructOf, expected field values recomputed from separate Exec calls and plain conversions, compared deeply",
     "Generated search: target types built with reflect.StructOf (fields of kind string, bool, all int/uint widths, float32/64, slices of scalars, nested structs, slices of structs and of pointers to structs, pointer depth 0-3 on any tagged field, untagged fields holding sentinels - scalars and untagged named, pointed-to and embedded structs whose own fields carry tags -, tagged pointer fields that point to caller-owned values before the call; slice fields whose tag yields a string, number or boolean), passed as *T, **T, ***T and *[]E with node-sets of size 0/1/n, exported field names of two-, three- and four-byte upper-case letters, a recursive target type over the whole (possibly 130 levels deep) document, same-named distinct struct types, and with 0-7 bindings (variables, a namespace, user functions incl. one shadowing concat) that the tags use; every tagged field must equal its tag's result evaluated from the struct's node and converted per kind, slices one element per node in result order, untagged fields untouched all the way down, pointer fields freshly allocated (the value a field pointed to before the call is unchanged); wrong-shaped results must give an error. Thirty unsupported targets (also complex, uintptr, unsafe.Pointer, func and chan fields, slices of complex and of maps) (nil, non-pointer struct, nil pointer, pointer to nil pointer, map, array, chan, func, 2-D slice, unexported tagged fields of string, struct, slice and pointer kind and an embedded unexported struct, interface/map/array fields, *int, string, nil inner pointers) must give an error and never panic.",
     "The tag results come from xsel.Exec itself (the property defines the field value as that result; C18 checks those results against the reference). Numeric results outside the field's range or NaN for integer fields are implementation-defined in Go and not judged.",
     "5.19",
     "cases = (document, select query, target type) and (unsupported target, result). Non-trivial = the target shape has a pointer, a nested struct or a slice of structs/pointers; every unsupported kind; distinct by (type shape, select).")
prop("C20", True,
     "property-based testing (rapid) of the built command: generated file trees x flag sets x expressions; expected stdout derived through the library API in-process; -m records re-parsed and compared with the selected subtree",
     "Generated search: temp trees of 1-6 files (XML from the serialiser, JSON, tag soup; nested directories; odd or missing extensions; malformed files; dangling symlinks; missing arguments; stdin) x flags -a -m -n -r -u -t -s -v -e -c 1 in drawn order x 41 expressions (string-length, concat, boolean and a bare predicate over -v values that look like numerals, are blank-padded, empty or contain '='); arguments in drawn order (stdin first, in the middle or last), unusual file names (blanks, colons, quotes, '%', non-ASCII, leading dot), symbolic links to regular files, element names that are HTML void elements and upper-case extensions; file and directory arguments also spelled with './', doubled or trailing slashes and '..' segments (node-set, string, number, boolean results, every node kind, namespaces and variables from -s/-v); stdout must equal, byte for byte, the records derived through the library for each processed file in walk order (nothing for empty node-sets, first node or one record per node with -a, 'path: ' prefix unless -n/stdin, where path is the path the tool was told or its cleaned form); with -m every selected node yields one line that parses with ReadXml to a tree equal to the selected subtree (expanded names, attributes, text, comments, PIs); every unreadable/unparsable/untyped input must be named on stderr and must not disturb the other files' output.",
     "The binary is rebuilt from /repo for every run. Attribute/namespace records (CLI's own PI notation) and -m over JSON/HTML trees are only checked for shape/no crash. Tests run as root, so unreadable files are simulated by dangling symlinks and missing paths.",
     "5.20",
     "cases = (file tree, flags, expression). Non-trivial = >= 2 files; distinct by (argv, file names and sizes).")


def main():
    checks = []
    na = []
    rules = {}
    for pid in sorted(P):
        p = P[pid]
        if not p["built"]:
            na.append({"property_id": pid,
                       "reason": "check not built yet in this session (planned in DESIGN.md section 5; "
                                 "property-based testing applies, nothing is claimed until the check exists)"})
            continue
        checks.append({
            "property_id": pid,
            "quick_cmd": "./check %s --tier quick" % pid,
            "thorough_cmd": "./check %s --tier thorough" % pid,
            "evidence_file": "/verif/evidence/%s.json" % pid,
            "replay_cmd_template": "./check %s --replay {path}" % pid,
            "engine": "rapid-pbt",
            "level_claimed": {"category": "exploration", "text": p["text"], "design_ref": "DESIGN.md " + p["design"]},
            "level_note": p["note"],
            "technique": p["technique"],
        })
        rules[pid] = {"rule": p["rule"], "assumptions": p["assumptions"] + COMMON_ASSUME[1:]}
    manifest = {
        "version": 1,
        "setup_cmd": "./check --setup",
        "hooks": {
            "guard": "verif",
            "enable": "every build passes -tags verif (go test -c -tags verif / go build -tags verif); no hook is needed: "
                      "all observation points are public API",
            "baseline_off_cmd": "cd /repo && go test -vet=off -count=1 ./...",
            "source_commits": [],
            "add_only": True,
        },
        "engines": [
            {"name": "rapid-pbt", "path": "/verif/harness",
             "serves_properties": [c["property_id"] for c in checks],
             "kind_free_text": "Go module 'verif': pgregory.net/rapid v1.3.0 properties over generated documents, "
                               "expressions, event streams and histories, judged against an independent reference "
                               "model; sharded over processes by /verif/check; native go test -fuzz targets in the "
                               "thorough tier of the byte-level properties"},
        ],
        "checks": checks,
        "not_applicable": na,
        "notes": "Exit 0 = held on everything explored (KNOWN-FINDING lines allowed), 1 = VIOLATION line printed, "
                 "2 = infrastructure trouble / inconclusive. VERIF_SEED is honoured (0 is remapped). Known findings: "
                 "/verif/known_findings.json.",
    }
    with open(os.path.join(VERIF, "MANIFEST.json"), "w") as f:
        json.dump(manifest, f, indent=1)
        f.write("\n")
    with open(os.path.join(VERIF, "harness", "rules.json"), "w") as f:
        json.dump(rules, f, indent=1)
        f.write("\n")


if __name__ == "__main__":
    main()
