#!/usr/bin/env python3
"""Regenerates /verif/MANIFEST.json and /verif/harness/rules.json from one table,
so that claimed checks, not_applicable and the evidence rules never drift."""
import json
import os

VERIF = os.path.dirname(os.path.dirname(os.path.abspath(__file__)))

# id -> dict(built, technique, text, note, design, rule, assumptions)
P = {}


def prop(pid, built, technique, text, note, design, rule, assumptions=()):
    P[pid] = dict(built=built, technique=technique, text=text, note=note, design=design, rule=rule,
                  assumptions=list(assumptions))


COMMON_ASSUME = [
    "the harness's reference evaluator xref (written from XPath 1.0, no code shared with xsel) is the oracle; "
    "implementation-only laws back it where stated",
    "generated search explores a sample of the input space: absence of violations is not established",
]

prop("C10", True,
     "property-based testing (rapid): generated Parser event streams vs. a reference tree builder + Cursor-contract invariants; child process under a stack cap for the depth-bounded-stack clause",
     "Generated search: contract-conforming event streams (nesting, prefix rebinding and override, surplus end events, parser errors) are replayed through a scripted parser.Parser into store.CreateInMemory; the resulting tree is walked in parallel with the harness's own model of the stream (structure, values, in-scope namespace sets per element) and the Cursor contract is asserted over a full traversal (Pos unique/increasing in document order, Parent() of every listed cursor, namespace cursors owned per element). Large flat streams are built in a child process whose goroutine stack is capped.",
     "Trusts the harness's event-stream model (xmodel.Build) as the meaning of the documented Parser contract; the stack clause is decided for the stated (events, depth) grid only.",
     "5.10",
     "cases = rapid-generated event streams (documents of depth <= 5 with namespaces, attributes, comments, PIs, adjacent text, forests; optional surplus top-level end events; optional parser error at a drawn position). Non-trivial = the stream has an inherited prefix overridden further down, or a surplus end event, or >= 3 levels of nesting; distinct by the full event list.",
     ["the scripted Parser obeys the documented Parser contract (namespaces, then attributes, then children; balanced ends apart from generated surplus ends at top level)"])

for pid in ["C01", "C02", "C03", "C04", "C05", "C06", "C07", "C08", "C09", "C11", "C12", "C13", "C14", "C15", "C16",
            "C17", "C18", "C19", "C20"]:
    prop(pid, False, "", "", "", "", "")


def main():
    checks = []
    na = []
    rules = {}
    for pid in sorted(P):
        p = P[pid]
        if not p["built"]:
            na.append({"property_id": pid,
                       "reason": "check not built yet in this session (planned in DESIGN.md section 5; "
                                 "property-based testing applies, nothing is claimed until the check exists)"})
            continue
        checks.append({
            "property_id": pid,
            "quick_cmd": "./check %s --tier quick" % pid,
            "thorough_cmd": "./check %s --tier thorough" % pid,
            "evidence_file": "/verif/evidence/%s.json" % pid,
            "replay_cmd_template": "./check %s --replay {path}" % pid,
            "engine": "rapid-pbt",
            "level_claimed": {"category": "exploration", "text": p["text"], "design_ref": "DESIGN.md " + p["design"]},
            "level_note": p["note"],
            "technique": p["technique"],
        })
        rules[pid] = {"rule": p["rule"], "assumptions": p["assumptions"] + COMMON_ASSUME[1:]}
    manifest = {
        "version": 1,
        "setup_cmd": "./check --setup",
        "hooks": {
            "guard": "verif",
            "enable": "every build passes -tags verif (go test -c -tags verif / go build -tags verif); no hook is needed: "
                      "all observation points are public API",
            "baseline_off_cmd": "cd /repo && go test -vet=off -count=1 ./...",
            "source_commits": [],
            "add_only": True,
        },
        "engines": [
            {"name": "rapid-pbt", "path": "/verif/harness",
             "serves_properties": [c["property_id"] for c in checks],
             "kind_free_text": "Go module 'verif': pgregory.net/rapid v1.3.0 properties over generated documents, "
                               "expressions, event streams and histories, judged against an independent reference "
                               "model; sharded over processes by /verif/check; native go test -fuzz targets in the "
                               "thorough tier of the byte-level properties"},
        ],
        "checks": checks,
        "not_applicable": na,
        "notes": "Exit 0 = held on everything explored (KNOWN-FINDING lines allowed), 1 = VIOLATION line printed, "
                 "2 = infrastructure trouble / inconclusive. VERIF_SEED is honoured (0 is remapped). Known findings: "
                 "/verif/known_findings.json.",
    }
    with open(os.path.join(VERIF, "MANIFEST.json"), "w") as f:
        json.dump(manifest, f, indent=1)
        f.write("\n")
    with open(os.path.join(VERIF, "harness", "rules.json"), "w") as f:
        json.dump(rules, f, indent=1)
        f.write("\n")


if __name__ == "__main__":
    main()
