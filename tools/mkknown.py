#!/usr/bin/env python3
"""Regenerates /verif/known_findings.json and the expect-style witness files under
/verif/known/ from one table.  Witness files of other kinds (event streams,
histories, byte inputs) are written by hand and only referenced here."""
import json
import os

VERIF = os.path.dirname(os.path.dirname(os.path.abspath(__file__)))
F = []


def expect(xml, expr, want, ctx="/", ns=None, vars=None):
    c = {"xml": xml, "ctx": ctx, "expr": expr, "want": want}
    if ns:
        c["ns"] = ns
    if vars:
        c["vars"] = vars
    return c


def nodes(*refs):
    return {"t": "nodes", "nodes": list(refs)}


def num(s):
    return {"t": "num", "num": s}


def st(s):
    return {"t": "str", "str": s}


def bl(b):
    return {"t": "bool", "bool": b}


def fixed(fid, prop, commit, what, case=None, witness=None):
    F.append(dict(id=fid, property=prop, status="fixed", commit=commit, what=what, case=case, witness=witness))


def opened(fid, prop, what, case=None, witness=None):
    F.append(dict(id=fid, property=prop, status="open", what=what, case=case, witness=witness))


fixed("C10-ns-shared", "C10", "6a9940c",
      "namespace cursors were shared between an element and its descendants (Parent() pointed at the declaring "
      "ancestor), renumbered by every descendant, and the first declared prefix reused the element's own Pos(): Pos() was not unique",
      witness="known/C10-ns-shared.json")
fixed("C10-stack-recursion", "C10", "a89f45d",
      "store.CreateInMemory used one stack frame per parser event, so stack use grew with the number of nodes "
      "instead of the nesting depth (a flat stream of 200000 events needs far more than the 1.5 MiB the check allows)",
      witness="known/C10-stack-recursion.json")
fixed("C01-ancestor-root", "C01", "2d49233",
      "the ancestor axes never contained the root node and parent::node() of the root returned the root",
      expect("<r><a/></r>", "ancestor::node()", nodes("/", "/0"), ctx="/0/0"))
fixed("C01-root-children-siblings", "C01", "b7459fe",
      "children of the root had no siblings and nothing following/preceding; following-sibling/following from an "
      "attribute or namespace node returned wrong nodes",
      expect("<!--c--><r/>", "following::node()", nodes("/1"), ctx="/0"))
fixed("C01-abs-in-predicate", "C01", "7ff1829",
      "an absolute path inside a predicate or function argument was evaluated from the context node (//a[/r/b] was empty)",
      expect("<r><a/><b/></r>", "//a[/r/b]", nodes("/0/0")))
fixed("C01-principal-node-type", "C01", "2b2c97d",
      "name tests ignored the principal node type of the axis: @id/self::* selected the attribute",
      expect('<r id="1"/>', "/r/@id/self::*", nodes()))
fixed("C02-last", "C02", "b010ea3", "last() was the constant 2 inside every predicate",
      expect("<r><a/><a/><a/></r>", "/r/a[last()]", nodes("/0/2")))
fixed("C02-numeric-predicate-truncated", "C02", "791aaf1", "[1.5] selected the first node (predicate value truncated to int)",
      expect("<r><a/><a/></r>", "/r/a[1.5]", nodes()))
fixed("C02-predicate-per-context-node", "C02", "06c4e05",
      "predicates numbered the merged candidates of all context nodes: //b[1] selected one node in the whole document",
      expect("<r><p><b/><b/></p><p><b/></p></r>", "//b[1]", nodes("/0/0/0", "/0/1/0")))
fixed("C02-filter-document-order", "C02", "243b583",
      "(E)[n] numbered a reverse-axis result nearest-first instead of in document order",
      expect("<r><a><b/></a></r>", "(ancestor::*)[1]", nodes("/0"), ctx="/0/0/0"))
fixed("C02-filter-path-dropped", "C02", "9894c3c",
      "the path after a filter expression was ignored: (//a)/b returned the a elements",
      expect("<r><a><b/></a></r>", "(//a)/b", nodes("/0/0/0")))
fixed("C03-attribute-axis-order", "C03", "6820812",
      "the attribute axis was neither sorted nor de-duplicated: ancestor::*/@* came back in mixed order",
      expect('<r x="1" z="3"><a y="2"><b/></a></r>', "ancestor::*/@*", nodes("/0/@0", "/0/@1", "/0/0/@0"), ctx="/0/0/0"))
fixed("C04-negative-zero-string", "C04", "85d2a3d", "string(-0) was '-0' and boolean(NaN) was true",
      expect("<r/>", "string(-0)", st("0")))
fixed("C04-string-to-number", "C04", "41a59ed",
      "number(' 12 ') was NaN while '1e3', '+1', 'Infinity', '0x1p4', '1_0' were accepted as numbers",
      expect("<r/>", "number(' 12 ') + number('1e3')", num("NaN")))
fixed("C04-node-set-first-node", "C04", "e9a6119",
      "a node-set was converted through element 0 of the slice (the last node in document order after a reverse axis)",
      expect("<r>0<a>1<b>2</b></a></r>", "string(ancestor::*)", st("012"), ctx="/0/1/1"))
fixed("C12-name-of-pi-and-namespace", "C12", "ce5dc5b",
      "local-name()/name() of processing instructions and namespace nodes returned the empty string",
      expect("<r><?t d?></r>", "local-name(/r/processing-instruction())", st("t")))
fixed("C04-boolean-function-missing", "C04", "a852ba9", "the boolean() core function did not exist",
      expect("<r/>", "boolean(0)", bl(False)))
fixed("C05-relational-string-compare", "C05", "3963137",
      "relational operators compared string-values lexicographically when a node-set was involved (10 < 9), and a "
      "node-set against a boolean through number()",
      expect("<r><a>10</a><b>9</b></r>", "/r/a < /r/b", bl(False)))
fixed("C06-mod-on-ints", "C06", "c9ac843",
      "mod was computed on int-truncated operands and failed with 'integer divide by zero' for |divisor| < 1",
      expect("<r/>", "5 mod 2.5", num("0")))
fixed("C06-number-literal-out-of-range", "C06", "b040b74",
      "a number literal beyond the double range (310 digits) made Exec fail with a strconv range error instead of evaluating to Infinity",
      expect("<r/>", "1" + "0" * 320 + " > 1", bl(True)))
fixed("C06-div-negative-zero", "C06", "af77ef5", "1 div -0 was +Infinity",
      expect("<r/>", "1 div -0", num("-Inf")))
fixed("C06-sum-truncates", "C06", "da29453", "sum() truncated every term to an integer",
      expect("<r><a>1.5</a><a>2.5</a></r>", "sum(/r/a)", num("4")))
fixed("C06-round-half-and-overflow", "C06", "a7653b5",
      "round(0.5) was 0 and round(x) overflowed through int() for |x| > 2^63",
      expect("<r/>", "round(0.5) = 1 and round($big) = $big", bl(True), vars=[{"n": "big", "t": "num", "num": "1e+300"}]))
fixed("C07-substring-bytes-panic", "C07", "a6deed5",
      "substring()/string-length() counted bytes and substring('12345', -5, 2) failed with an internal panic",
      expect("<r/>", "concat(substring('12345', -5, 2), string-length('é€'), substring('é€x', 2, 1))", st("2€")))
fixed("C07-normalize-space-trim-only", "C07", "b6a3a2a",
      "normalize-space() only trimmed (and trimmed non-XML spaces): inner whitespace runs were kept",
      expect("<r/>", "normalize-space(' a   b ')", st("a b")))
fixed("C07-translate-sequential", "C07", "1c9ef24",
      "translate() replaced sequentially and byte-wise: translate('abc','ab','ba') was 'aac'",
      expect("<r/>", "translate('abc','ab','ba')", st("bac")))
fixed("C12-lang-fuzzy-match", "C12", "4e0a5eb",
      "lang() used a fuzzy BCP 47 matcher: lang('zh') was false on xml:lang='zh-TW', lang('e') true on xml:lang=''",
      expect('<r xml:lang="zh-TW"/>', "lang('zh')", bl(True), ctx="/0"))
fixed("C13-union-mutates-operand", "C13", "efbdc9f",
      "the union operator appended to and sorted the caller's node-set in place ($v | x reordered / overwrote a caller-held slice)",
      witness="known/C13-union-mutates-operand.json")

fixed("C16-truncated-json-accepted", "C16", "736f080",
      "truncated JSON ('[1,2', '{\"a\":') was returned as a shorter tree with a nil error",
      witness="known/C16-truncated-json-accepted.json")
fixed("C17-xmlns-xlink-attribute", "C17", "df4fd56",
      "xmlns:xlink on foreign (svg/math) elements survived as an attribute named 'xlink'",
      witness="known/C17-xmlns-xlink-attribute.json")
fixed("C09-xml-declaration-pi", "C09", "96b9f88", "the XML declaration became a processing-instruction child of the root",
      witness="known/C09-xml-declaration-pi.json")
fixed("C09-top-level-whitespace", "C09", "46e2d1f",
      "white space between prolog/epilog items became text children of the root; a DOCTYPE was reported as an end-element event",
      witness="known/C09-top-level-whitespace.json")
fixed("C09-prefixed-namespace-declarations", "C09", "08620d4", "xmlns:p declarations produced no namespace node",
      witness="known/C09-prefixed-namespace-declarations.json")
fixed("C09-cdata-splits-text", "C09", "78afeb2",
      "CDATA sections split one text node into several and <![CDATA[]]> produced an empty text node",
      witness="known/C09-cdata-splits-text.json")
fixed("C09-default-namespace-undeclared", "C09", "0dfa50f",
      "xmlns=\"\" left a namespace node with empty prefix and empty URI on the element and its descendants",
      witness="known/C09-default-namespace-undeclared.json")

fixed("C03-self-axis-caller-order", "C03", "925e4ec",
      "the self axis ('self::x', '.') returned a caller-ordered variable node-set unchanged: $v/self::node() was not in document order",
      expect("<r><a/><b/><c/></r>", "$v/self::node()", {"t": "nodes", "nodes": ["/0/0", "/0/1", "/0/2"], "asc": True},
             vars=[{"n": "v", "t": "nodes", "nodes": ["/0/2", "/0/0", "/0/1"]}]))
fixed("C19-unmarshal-target-panics", "C19", "bbc43b3",
      "Unmarshal panicked on nil, nil-pointer, pointer-to-nil-pointer and non-pointer struct targets",
      witness="known/C19-unmarshal-target-panics.json")
fixed("C20-value-with-equals-sign", "C20", "e88d854",
      "-s/-v/-e split their argument at every '=': a variable value such as 'a=b' or a namespace URI with a query string was rejected with the usage text and no file was processed",
      witness="known/C20-value-with-equals-sign.json")
fixed("C20-m-no-namespace-child", "C20", "9d67732",
      "-m printed an element without a namespace inside a namespaced element without xmlns=\"\", so the record parsed back into the parent's namespace",
      witness="known/C20-m-no-namespace-child.json")

opened("C06-round-negative-tie", "C06",
       "round() rounds negative ties away from zero (round(-1.5) = -2, XPath 1.0: -1); the repository's own "
       "TestFunctionRound pins this value, so it cannot be repaired without editing the suite; substring() bounds share the helper",
       expect("<r/>", "round(-1.5)", num("-1")))
opened("C08-slash-star-ambiguity", "C08",
       "an absolute path that starts '/*' and continues with '/', '//' or '-' is also parsed as the multiplication "
       "(/) * (...), which XPath 1.0 section 3.7 forbids, and the evaluator may pick that reading: 0+/*/a is NaN or a "
       "product instead of number(/*/a); grammar-level (gogll-generated lexer has no preceding-token rule; gogll is "
       "not available offline to regenerate it)",
       expect("<r>5<a>2</a><a>3</a></r>", "0+/*/a", num("2")))
opened("C08-number-trailing-dot", "C08",
       "the Number '1.' (digits, point, no fraction digits) is valid XPath 1.0 but BuildExpr rejects it (grammar file has no Digits '.' alternative)",
       expect("<r/>", "1.", num("1")))
opened("C08-ncname-underscore-start", "C08",
       "an NCName may start with '_' but the generated lexer's ncname token must start with a letter or '#': /_a is rejected",
       expect("<_a>1</_a>", "/_a", nodes("/0")))
opened("C08-operator-named-name-test", "C08",
       "elements named and/or/div/mod cannot be selected: the name test /div is rejected (no reserved-name production for operator names)",
       expect("<div>1</div>", "/div", nodes("/0")))
opened("C08-backslash-in-double-quoted-literal", "C08",
       "a double-quoted literal containing a backslash that is not a recognised escape (\"a\\b\") is rejected; XPath literals have no escapes",
       expect("<r/>", '"a\\b"', st("a\\b")))
opened("C08-literal-ending-in-backslash", "C08",
       "a literal whose last character is a backslash is read by the generated lexer as continuing past its closing "
       "quote (it takes \\' for an escape): the valid expression '\\' * '' is rejected (XPath literals have no escapes; same "
       "root cause as the double-quoted case: the grammar file's literal tokens define escape sequences)",
       expect("<r/>", "'\\'*''", {"t": "builds"}))
opened("C08-variable-reference-repetition", "C08",
       "the generated lexer's variable-reference token is a repetition of names, so '$a:bb:c' is read as (a:b)(b:c) and "
       "accepted although it is not an expression; evaluation then uses 'a' and 'bb' and ignores the rest",
       expect("<r/>", "$a:bb:c", {"t": "reject"}))
opened("C08-keyword-lookalike-names", "C08",
       "the generated lexer reads a name that differs from a hyphenated keyword only at the hyphen positions as that "
       "keyword: 'following0sibling::a' is accepted (and evaluated as the self axis) although it names no axis, and the "
       "function call 'processing0instruction(0)' is rejected as a malformed node test",
       expect("<r><a/><a/></r>", "/r/a/following1sibling::a", {"t": "reject"}))
opened("C08-number-split-by-white-space", "C08",
       "'1 . 5' is not an expression but BuildExpr accepts it (Number is a syntax rule over tokens, so white space may split it); Exec then fails with a strconv error",
       expect("<r/>", "1 . 5", {"t": "reject"}))
opened("C08-slash-star-as-multiply", "C08",
       "'/ * 2' is not an expression (after the operator '/' a '*' is a name test, XPath 1.0 section 3.7) but BuildExpr accepts it and evaluates (/) * 2",
       expect("<r/>", "/ * 2", {"t": "reject"}))
opened("C20-m-newline-in-comment-or-pi", "C20",
       "-m replaces every newline of the encoded record by the text '&#10;', also inside comments and processing "
       "instructions where references are not recognised: such a node does not parse back to itself (inherent in the "
       "one-line record format; there is no newline-free spelling of a comment that contains one)",
       witness="known/C20-m-newline-in-comment-or-pi.json")
opened("C20-m-attribute-namespace-in-pi-target", "C20",
       "-m prints an attribute node as the processing instruction <?attribute:URI:local value?>; a namespace URI with "
       "characters that are not name characters (xml:lang: http://www.w3.org/XML/1998/namespace) makes the encoder "
       "refuse the target, and the record - with all later records of that file - is lost (needs a different notation, "
       "not a small repair)",
       witness="known/C20-m-attribute-namespace-in-pi-target.json")
opened("C20-m-attribute-value-with-pi-end", "C20",
       "-m prints an attribute node as the processing instruction <?attribute:URI:local value?>; a value that contains "
       "'?>' cannot be written inside a processing instruction: the encoder refuses it, and the record - with all later "
       "records of that file - is lost (same notation problem as C20-m-attribute-namespace-in-pi-target)",
       witness="known/C20-m-attribute-value-with-pi-end.json")


def main():
    os.makedirs(os.path.join(VERIF, "known"), exist_ok=True)
    out = []
    for f in F:
        w = f["witness"]
        if f["case"] is not None:
            w = "known/%s.json" % f["id"]
            with open(os.path.join(VERIF, w), "w") as fh:
                json.dump({"property": f["property"], "kind": "expect", "message": f["what"], "case": f["case"]}, fh,
                          indent=1, ensure_ascii=False)
                fh.write("\n")
        e = {"id": f["id"], "property": f["property"], "status": f["status"]}
        if f["status"] == "fixed":
            e["commit"] = f["commit"]
            e["what"] = "fixed: property=%s %s %s" % (f["property"], f["commit"], f["what"])
        else:
            e["what"] = f["what"]
        e["witness"] = w
        if not os.path.exists(os.path.join(VERIF, w)):
            print("warning: witness file missing, entry skipped:", w)
            continue
        out.append(e)
    doc = {
        "comment": "Genuine defects of ChrisTrenkamp/xsel found by the checks. status=fixed: repaired by the named "
                   "fix: commit in /repo; the witness is a regression case that must pass on every run (a fixed entry "
                   "suppresses nothing). status=open: recorded, not repaired; the check prints KNOWN-FINDING for it "
                   "while its witness still fails and excludes exactly the named behaviour from the generated search. "
                   "The file is read-only at run time; generated by tools/mkknown.py.",
        "findings": out,
    }
    with open(os.path.join(VERIF, "known_findings.json"), "w") as fh:
        json.dump(doc, fh, indent=1, ensure_ascii=False)
        fh.write("\n")


if __name__ == "__main__":
    main()
