#!/bin/sh
# tools/seedbatch.sh <N> : import round N from /tmp/seedN, remove the worktrees, confirm, detect (quick tier of the
# seed's own property), print the misses.  /repo must be clean and nothing else may patch it meanwhile.
set -e
N=$1
cd "$(dirname "$0")/.."
props=$(ls -d /tmp/seed$N/C??-out | sed 's#.*/\(C..\)-out#\1#')
python3 tools/seedimport.py --round$N $props > /dev/null
for p in $props; do git -C /repo worktree remove --force /tmp/seed$N/$p 2>/dev/null || true; done
git -C /repo worktree prune
(ls -d seeded/*-r$N? | xargs -P 6 -n 1 python3 tools/seedrun.py confirm) 2>&1 | grep -v ": CONFIRMED" || true
for d in seeded/*-r$N?; do python3 tools/seedrun.py detect $d || true; done > /tmp/r${N}detect.log 2>&1
grep -a "exit=0\|exit=2\|does not apply\|refusing" /tmp/r${N}detect.log | cut -c1-200 || true
echo "detected: $(grep -ac 'exit=1' /tmp/r${N}detect.log) of $(ls -d seeded/*-r$N? | wc -l)"
